/-
  Helper lemmas for C11 (formatter = layout description).
-/
import Lessm.Spec.PrintSpec
namespace Lessm.Print

/-! ### strings -/

theorem str_isEmpty_false_of_toList {s : String} {c : Char} {l : List Char} (h : s.toList = c :: l) :
    s.isEmpty = false := by
  cases hs : s.isEmpty with
  | false => rfl
  | true =>
    rw [String.isEmpty_iff] at hs
    subst hs
    simp at h

theorem str_append_isEmpty_false {a : String} (b : String) (h : a.isEmpty = false) :
    (a ++ b).isEmpty = false := by
  cases hs : (a ++ b).isEmpty with
  | false => rfl
  | true =>
    rw [String.isEmpty_iff, ← String.toList_inj] at hs
    simp only [String.toList_append] at hs
    have : a.toList = [] := by
      cases h' : a.toList with
      | nil => rfl
      | cons c l => rw [h'] at hs; simp at hs
    rw [String.toList_eq_nil_iff] at this
    subst this
    simp at h

theorem str_append_cancel_right {a b c : String} (h : a ++ c = b ++ c) : a = b := by
  rw [← String.toList_inj] at h ⊢
  simpa [String.toList_append] using h

theorem join_cons (s : String) (l : List String) : String.join (s :: l) = s ++ String.join l := by
  rw [← String.toList_inj]
  simp [String.toList_join]

theorem join_nil : String.join [] = "" := rfl

theorem rep_zero (s : String) : rep 0 s = "" := rfl

theorem rep_succ (n : Nat) (s : String) : rep (n + 1) s = s ++ rep n s := by
  simp [rep, List.replicate_succ]

theorem rep_succ' (n : Nat) (s : String) : rep (n + 1) s = rep n s ++ s := by
  induction n with
  | zero => simp [rep_succ, rep_zero]
  | succ n ih => rw [rep_succ, ih, ← String.append_assoc, ← rep_succ, ih]

theorem rep_one (s : String) : rep 1 s = s := by simp [rep_succ, rep_zero]

theorem rep_empty (n : Nat) : rep n "" = "" := by
  induction n with
  | zero => rfl
  | succ n ih => simp [rep_succ, ih]

theorem mem_rep {c : Char} {n : Nat} {s : String} (h : c ∈ (rep n s).toList) : c ∈ s.toList := by
  induction n with
  | zero => simp [rep_zero] at h
  | succ n ih =>
    rw [rep_succ, String.toList_append, List.mem_append] at h
    exact h.elim id ih

/-! ### whitespace-only strings -/

theorem wsOnly_empty : wsOnly "" = true := by decide

theorem wsOnly_append (a b : String) : wsOnly (a ++ b) = (wsOnly a && wsOnly b) := by
  simp [wsOnly, String.toList_append]

theorem wsOnly_rep (n : Nat) (s : String) (h : wsOnly s = true) : wsOnly (rep n s) = true := by
  induction n with
  | zero => exact wsOnly_empty
  | succ n ih => rw [rep_succ, wsOnly_append, h, ih]; rfl

theorem wsOnly_spaces (n : Nat) : wsOnly (String.ofList (List.replicate n ' ')) = true := by
  simp only [wsOnly, String.toList_ofList, List.all_eq_true]
  intro c hc
  rw [List.eq_of_mem_replicate hc]
  decide

theorem wsOnly_unitOf (o : Opts) : wsOnly (unitOf o) = true := by
  unfold unitOf
  split
  · decide
  · exact wsOnly_spaces _

/-! ### `realise`, `toks` -/

@[simp] theorem realise_nil (f : Fills) : realise f [] = "" := rfl
@[simp] theorem realise_tok (f : Fills) (s : String) (r : List Lay) :
    realise f (.tok s :: r) = s ++ realise f r := rfl
@[simp] theorem realise_opt (f : Fills) (k : OptK) (r : List Lay) :
    realise f (.opt k :: r) = realiseOpt f k ++ realise f r := rfl

theorem realise_append (f : Fills) (l₁ l₂ : List Lay) :
    realise f (l₁ ++ l₂) = realise f l₁ ++ realise f l₂ := by
  induction l₁ with
  | nil => simp
  | cons a l ih => cases a <;> simp [ih, String.append_assoc]

theorem toks_append (l₁ l₂ : List Lay) : toks (l₁ ++ l₂) = toks l₁ ++ toks l₂ := by
  induction l₁ with
  | nil => rfl
  | cons a l ih => cases a <;> simp [toks, ih]

/-! ### the fill table -/

/-- the minified fills with end-of-block `E` -/
def MF (E : String) : Fills := ⟨"", "", "", E⟩
/-- the non-minified fills with line break `N` and indentation unit `T` -/
def DF (N T : String) : Fills := ⟨N, T, " ", N⟩

theorem fills_min (o : Opts) (h : o.minify = true ∨ o.xminify = true) :
    fills o = MF (if o.xminify then "" else "\n") := by
  have : (o.minify || o.xminify) = true := by simpa using h
  simp [fills, this, MF]

theorem fills_default (o : Opts) (h1 : o.minify = false) (h2 : o.xminify = false) :
    fills o = DF "\n" (unitOf o) := by
  simp [fills, h1, h2, DF, unitOf]

section M
variable (E : String)
theorem roM_nl : realiseOpt (MF E) .nl = "" := rfl
theorem roM_ws : realiseOpt (MF E) .ws = "" := rfl
theorem roM_commaWs : realiseOpt (MF E) .commaWs = "" := by simp [realiseOpt, MF]
theorem roM_indent (n : Nat) : realiseOpt (MF E) (.indent n) = "" := by simp [realiseOpt, MF]
theorem roM_selSep (n : Nat) : realiseOpt (MF E) (.selSep n) = "" := by simp [realiseOpt, MF]
theorem roM_eb : realiseOpt (MF E) .eb = E := rfl
theorem roM_ebInner : realiseOpt (MF E) .ebInner = E := by simp [realiseOpt, MF]
theorem roM_ebLast : realiseOpt (MF E) .ebLast = "" := rfl
end M

section D
set_option linter.unusedSectionVars false
variable {N : String} (T : String) (hN : N.isEmpty = false)
include hN
theorem roD_nl : realiseOpt (DF N T) .nl = N := rfl
theorem roD_ws : realiseOpt (DF N T) .ws = " " := rfl
theorem roD_commaWs : realiseOpt (DF N T) .commaWs = " " := by simp [realiseOpt, DF, hN]
theorem roD_indent (n : Nat) : realiseOpt (DF N T) (.indent n) = rep n T := by simp [realiseOpt, DF, hN]
theorem roD_selSep (n : Nat) : realiseOpt (DF N T) (.selSep n) = N ++ rep n T := by
  simp [realiseOpt, DF, hN]
theorem roD_eb : realiseOpt (DF N T) .eb = N := rfl
theorem roD_ebInner : realiseOpt (DF N T) .ebInner = N := by simp [realiseOpt, DF, hN]
theorem roD_ebLast : realiseOpt (DF N T) .ebLast = N := rfl
theorem roD_close (pos : Pos) : realiseOpt (DF N T) (closeOpt pos) = N := by
  cases pos <;> simp [closeOpt, realiseOpt, DF, hN]
end D

theorem nl_nonempty : ("\n" : String).isEmpty = false := by decide

theorem wsOnly_realiseOpt_M (E : String) (hE : wsOnly E = true) (k : OptK) :
    wsOnly (realiseOpt (MF E) k) = true := by
  cases k <;> simp [roM_nl, roM_ws, roM_commaWs, roM_indent, roM_selSep, roM_eb, roM_ebInner, roM_ebLast,
    wsOnly_empty, hE]

theorem wsOnly_realiseOpt_D (T : String) (hT : wsOnly T = true) (k : OptK) :
    wsOnly (realiseOpt (DF "\n" T) k) = true := by
  have h1 : wsOnly "\n" = true := by decide
  have h2 : wsOnly " " = true := by decide
  cases k <;> simp [roD_nl, roD_ws, roD_commaWs, roD_indent, roD_selSep, roD_eb, roD_ebInner, roD_ebLast,
    nl_nonempty, wsOnly_append, wsOnly_rep, h1, h2, hT]

theorem wsOnly_realiseOpt_fills (o : Opts) (k : OptK) : wsOnly (realiseOpt (fills o) k) = true := by
  by_cases h : o.minify = true ∨ o.xminify = true
  · rw [fills_min o h]
    apply wsOnly_realiseOpt_M
    split <;> decide
  · have h1 : o.minify = false := by cases hm : o.minify <;> simp [hm] at h ⊢
    have h2 : o.xminify = false := by cases hx : o.xminify <;> simp [hx] at h ⊢
    rw [fills_default o h1 h2]
    exact wsOnly_realiseOpt_D _ (wsOnly_unitOf o) k

/-! ### interleaving -/

theorem Interleaves.prepend {ts : List String} {s : String} (g : String) (hg : wsOnly g = true)
    (h : Interleaves ts s) : Interleaves ts (g ++ s) := by
  cases h with
  | nil g' hg' => exact .nil _ (by rw [wsOnly_append, hg, hg']; rfl)
  | cons g' t ts s' hg' h' =>
    have : g ++ (g' ++ t ++ s') = (g ++ g') ++ t ++ s' := by simp [String.append_assoc]
    rw [this]
    exact .cons _ _ _ _ (by rw [wsOnly_append, hg, hg']; rfl) h'

theorem interleaves_realise (f : Fills) (hf : ∀ k, wsOnly (realiseOpt f k) = true) (l : List Lay) :
    Interleaves (toks l) (realise f l) := by
  induction l with
  | nil => exact .nil _ wsOnly_empty
  | cons a l ih =>
    cases a with
    | tok s =>
      have : realise f (.tok s :: l) = "" ++ s ++ realise f l := by simp
      rw [this]
      exact .cons _ _ _ _ wsOnly_empty ih
    | opt k => exact ih.prepend _ (hf k)

theorem gaps_ne_nil (f : Fills) (l : List Lay) : gaps f l ≠ [] := by
  induction l with
  | nil => simp [gaps]
  | cons a l ih =>
    cases a with
    | tok s => simp [gaps]
    | opt k => simp only [gaps]; split <;> simp

theorem gaps_length (f : Fills) (l : List Lay) : (gaps f l).length = (toks l).length + 1 := by
  induction l with
  | nil => rfl
  | cons a l ih =>
    cases a with
    | tok s => simp [gaps, toks, ih]
    | opt k =>
      simp only [gaps, toks]
      split
      · next h => exact absurd h (gaps_ne_nil f l)
      · next g gs h => rw [h] at ih; simpa using ih

theorem gaps_wsOnly (f : Fills) (hf : ∀ k, wsOnly (realiseOpt f k) = true) (l : List Lay) :
    ∀ g ∈ gaps f l, wsOnly g = true := by
  induction l with
  | nil => intro g hg; simp [gaps] at hg; subst hg; exact wsOnly_empty
  | cons a l ih =>
    cases a with
    | tok s =>
      intro g hg
      simp only [gaps, List.mem_cons] at hg
      rcases hg with rfl | hg
      · exact wsOnly_empty
      · exact ih g hg
    | opt k =>
      simp only [gaps]
      split
      · next h => exact absurd h (gaps_ne_nil f l)
      · next g0 gs h =>
        rw [h] at ih
        intro g hg
        simp only [List.mem_cons] at hg
        rcases hg with rfl | hg
        · rw [wsOnly_append, hf k, ih g0 (by simp)]; rfl
        · exact ih g (by simp [hg])

theorem realise_eq_weave (f : Fills) (l : List Lay) : realise f l = weave (gaps f l) (toks l) := by
  induction l with
  | nil => rfl
  | cons a l ih =>
    cases a with
    | tok s => simp [gaps, toks, weave, ih]
    | opt k =>
      simp only [gaps, toks, realise_opt]
      split
      · next h => exact absurd h (gaps_ne_nil f l)
      · next g0 gs h =>
        rw [ih, h]
        cases toks l <;> simp [weave, String.append_assoc]

/-! ### erasing all whitespace -/

theorem filter_wsOnly (s : String) (h : wsOnly s = true) : s.toList.filter notWs = [] := by
  simp only [wsOnly, List.all_eq_true] at h
  simp only [List.filter_eq_nil_iff, notWs]
  intro c hc
  simp [h c hc]

theorem filter_realise (f : Fills) (hf : ∀ k, wsOnly (realiseOpt f k) = true) (l : List Lay) :
    (realise f l).toList.filter notWs = (eraseWs l).toList.filter notWs := by
  induction l with
  | nil => rfl
  | cons a l ih =>
    cases a with
    | tok s =>
      simp only [eraseWs] at ih
      simp [eraseWs, toks, String.toList_append, ih]
    | opt k =>
      simp only [eraseWs] at ih
      simp [eraseWs, toks, String.toList_append, ih, filter_wsOnly _ (hf k)]

/-! ### the leaf printers are realisations of their layouts (any fills) -/

theorem fmtSel_eq (f : Fills) (s : List SelPiece) : fmtSel f s = realise f (laySel s) := by
  induction s with
  | nil => rfl
  | cons p r ih => cases p <;> simp [fmtSel, laySel, ih, realiseOpt, String.append_assoc]

theorem realiseOpt_selSep_zero (f : Fills) : realiseOpt f (.selSep 0) = f.nl := by
  simp [realiseOpt, rep_zero]

theorem fmtIdent_eq (f : Fills) (sels : List (List SelPiece)) :
    fmtIdent f sels = realise f (laySels 0 sels) := by
  unfold fmtIdent
  induction sels with
  | nil => rfl
  | cons s r ih =>
    cases r with
    | nil => simp [joinWith, laySels, fmtSel_eq]
    | cons s' r =>
      simp only [List.map_cons, joinWith] at ih ⊢
      simp only [laySels, realise_append, realise_tok, realise_opt, realise_nil, realiseOpt_selSep_zero,
        ← ih, fmtSel_eq, String.append_assoc, String.append_empty]

theorem realise_laySel_congr (f g : Fills) (h : f.ws = g.ws) (s : List SelPiece) :
    realise f (laySel s) = realise g (laySel s) := by
  induction s with
  | nil => rfl
  | cons p r ih => cases p <;> simp [laySel, ih, realiseOpt, h]

theorem realise_laySels_congr (f g : Fills) (d d' : Nat) (hws : f.ws = g.ws)
    (h : realiseOpt f (.selSep d) = realiseOpt g (.selSep d')) (sels : List (List SelPiece)) :
    realise f (laySels d sels) = realise g (laySels d' sels) := by
  induction sels with
  | nil => rfl
  | cons s r ih =>
    cases r with
    | nil => simp [laySels, realise_laySel_congr f g hws]
    | cons s' r =>
      simp only [laySels, realise_append, realise_tok, realise_opt, realise_nil, h, ih,
        realise_laySel_congr f g hws s]

theorem fmtValue_eq (f : Fills) (v : List ValPiece) : fmtValue f v = realise f (layValue v) := by
  induction v with
  | nil => rfl
  | cons p r ih =>
    cases p with
    | tok s => simp [fmtValue, layValue, ih]
    | sp => simp [fmtValue, layValue, ih]
    | comma =>
      simp only [fmtValue, layValue, ih, realise_tok, realise_opt, realiseOpt]
      split <;> simp [String.append_assoc]

theorem realise_layValue_congr (f g : Fills) (h : realiseOpt f .commaWs = realiseOpt g .commaWs)
    (v : List ValPiece) : realise f (layValue v) = realise g (layValue v) := by
  induction v with
  | nil => rfl
  | cons p r ih => cases p <;> simp [layValue, ih, h]

theorem fmtDecl_eq (f : Fills) (hI : realiseOpt f (.indent 1) = f.tab) (x : Decl) :
    fmtDecl f x = realise f (layDecl 1 x) := by
  unfold fmtDecl layDecl
  have h1 : realiseOpt f .ws = f.ws := rfl
  have h2 : realiseOpt f .nl = f.nl := rfl
  cases x.important <;>
    simp only [realise_append, realise_opt, realise_tok, realise_nil, hI, h1, h2, fmtValue_eq,
      String.append_assoc, String.append_empty, if_true, if_false,
      Bool.false_eq_true]

theorem fmtDecls_eq (f : Fills) (hI : realiseOpt f (.indent 1) = f.tab) (ds : List Decl) :
    fmtDecls f ds = realise f (layDecls 1 ds) := by
  induction ds with
  | nil => rfl
  | cons x r ih => simp [fmtDecls, layDecls, realise_append, ih, fmtDecl_eq f hI]

theorem realise_layDecls_congr (f : Fills) (d d' : Nat)
    (h : realiseOpt f (.indent d) = realiseOpt f (.indent d')) (ds : List Decl) :
    realise f (layDecls d ds) = realise f (layDecls d' ds) := by
  induction ds with
  | nil => rfl
  | cons x r ih => simp [layDecls, layDecl, realise_append, ih, h]

/-! ### `layNodes` -/

theorem layNodes_nil (d : Nat) : layNodes d [] = [] := by simp [layNodes]
theorem layNodes_single (d : Nat) (n : Node) :
    layNodes d [n] = layNode d (if d = 0 then .top else .last) n := by simp [layNodes]
theorem layNodes_cons2 (d : Nat) (n n' : Node) (r : List Node) :
    layNodes d (n :: n' :: r) = layNode d (if d = 0 then .top else .inner) n ++ layNodes d (n' :: r) := by
  simp [layNodes]

theorem layNodes_zero_cons (n : Node) (r : List Node) :
    layNodes 0 (n :: r) = layNode 0 .top n ++ layNodes 0 r := by
  cases r with
  | nil => simp [layNodes_single, layNodes_nil]
  | cons n' r => simp [layNodes_cons2]

theorem layNode_rule (d : Nat) (pos : Pos) (sels : List (List SelPiece)) (decls : List Decl) :
    layNode d pos (.rule sels decls) =
      if decls.isEmpty then [] else
      [.opt (.indent d)] ++ laySels d sels ++ [.opt .ws, .tok "{", .opt .nl] ++ layDecls (d + 1) decls ++
        [.opt (.indent d), .tok "}", .opt (closeOpt pos)] := by simp [layNode]
theorem layNode_nest (d : Nat) (pos : Pos) (p : String) (inner : List Node) :
    layNode d pos (.nest p inner) =
      if inner.isEmpty then [] else
      [.opt (.indent d), .tok p, .opt .ws, .tok "{", .opt .nl] ++ layNodes (d + 1) inner ++
        [.opt (.indent d), .tok "}", .opt (closeOpt pos)] := by simp [layNode]
theorem layNode_stmt (d : Nat) (pos : Pos) (t : String) :
    layNode d pos (.stmt t) = [.opt (.indent d), .tok t, .opt (closeOpt pos)] := by simp [layNode]

theorem fmtNode_rule (f : Fills) (sels : List (List SelPiece)) (decls : List Decl) :
    fmtNode f (.rule sels decls) =
      if decls.isEmpty then ""
      else fmtIdent f sels ++ f.ws ++ "{" ++ f.nl ++ fmtDecls f decls ++ "}" ++ f.eb := by simp [fmtNode]
theorem fmtNode_nest (f : Fills) (p : String) (inner : List Node) :
    fmtNode f (.nest p inner) =
      if inner.isEmpty then "" else
      p ++ f.ws ++ "{" ++ f.nl ++ f.tab ++
        (if f.nl.isEmpty then strip (String.ofList (rstripChars f.tab.toList (indent f (fmtNodes f inner)).toList))
         else String.ofList (rstripChars f.tab.toList (indent f (fmtNodes f inner)).toList)) ++ "}" ++ f.eb := by
  simp [fmtNode]
theorem fmtNode_stmt (f : Fills) (t : String) : fmtNode f (.stmt t) = t ++ f.eb := by simp [fmtNode]
theorem fmtNodes_nil (f : Fills) : fmtNodes f [] = "" := by simp [fmtNodes]
theorem fmtNodes_cons (f : Fills) (n : Node) (r : List Node) :
    fmtNodes f (n :: r) = fmtNode f n ++ fmtNodes f r := by simp [fmtNodes]

/-! ### re-indentation (`Block._indent`) of a realised layout -/

/-- a character that `indentChars` copies without changing its state -/
def plain (c : Char) : Bool := c != '\n' && c != '"' && c != '\''
/-- an indentation unit without line break and quote -/
def TOk (T : String) : Bool := T.toList.all plain

theorem indentChars_nl (T r : List Char) :
    indentChars T none ('\n' :: r) = '\n' :: (T ++ indentChars T none r) := by
  simp [indentChars]

theorem indentChars_plain (T : List Char) (c : Char) (hc : plain c = true) (r : List Char) :
    indentChars T none (c :: r) = c :: indentChars T none r := by
  simp only [plain, Bool.and_eq_true, bne_iff_ne, ne_eq] at hc
  simp [indentChars, hc]

theorem indentChars_plainL (T l : List Char) (hl : l.all plain = true) (r : List Char) :
    indentChars T none (l ++ r) = l ++ indentChars T none r := by
  induction l with
  | nil => rfl
  | cons c l ih =>
    simp only [List.all_cons, Bool.and_eq_true] at hl
    rw [List.cons_append, indentChars_plain T c hl.1, ih hl.2]; rfl

theorem indentChars_noNl (T : List Char) : ∀ (l : List Char) (q : Option Char),
    l.contains '\n' = false → ∀ r, indentChars T q (l ++ r) = l ++ indentChars T (l.foldl qStep q) r
  | [], _, _, _ => rfl
  | c :: l, some q, h, r => by
      have h' : l.contains '\n' = false := by
        simp only [List.contains_cons, Bool.or_eq_false_iff] at h; exact h.2
      simp only [List.cons_append, indentChars, List.foldl_cons, qStep]
      rw [indentChars_noNl T l _ h' r]
  | c :: l, none, h, r => by
      simp only [List.contains_cons, Bool.or_eq_false_iff] at h
      have hc : (c == '\n') = false := by
        cases hcc : (c == '\n') with
        | false => rfl
        | true =>
          have : c = '\n' := by simpa using hcc
          subst this
          simp at h
      simp only [List.cons_append, indentChars, List.foldl_cons, qStep, hc]
      split
      · rw [indentChars_noNl T l _ h.2 r]
      · simp only [Bool.false_eq_true, if_false]
        rw [indentChars_noNl T l _ h.2 r]

theorem indentChars_tok (T : List Char) (s : String) (h : tokOk s = true) (r : List Char) :
    indentChars T none (s.toList ++ r) = s.toList ++ indentChars T none r := by
  simp only [tokOk, Bool.and_eq_true, Bool.not_eq_true', Option.isNone_iff_eq_none] at h
  rw [indentChars_noNl T _ _ h.1, h.2]

theorem indentChars_nil_tab : ∀ (q : Option Char) (l : List Char), indentChars [] q l = l
  | _, [] => rfl
  | some q, c :: r => by simp [indentChars, indentChars_nil_tab _ r]
  | none, c :: r => by
      simp only [indentChars, List.nil_append, indentChars_nil_tab _ r]
      split
      · rfl
      · split <;> rfl

/-- every token text of the layout is `tokOk` -/
def layOk : List Lay → Bool
  | [] => true
  | .tok s :: r => tokOk s && layOk r
  | .opt _ :: r => layOk r

theorem layOk_append (a b : List Lay) : layOk (a ++ b) = (layOk a && layOk b) := by
  induction a with
  | nil => simp [layOk]
  | cons x a ih => cases x <;> simp [layOk, ih, Bool.and_assoc]

theorem plain_of_mem_rep {T : String} (hT : TOk T = true) (n : Nat) : (rep n T).toList.all plain = true := by
  simp only [TOk, List.all_eq_true] at hT ⊢
  exact fun c hc => hT c (mem_rep hc)

theorem str_nl_toList : ("\n" : String).toList = ['\n'] := by decide
theorem str_sp_toList : (" " : String).toList = [' '] := by decide

/-- re-indenting the text of a layout = realising the same layout with "line break := line break
    followed by one indentation unit" -/
theorem indent_realise (T : String) (hT : TOk T = true) (l : List Lay) (hl : layOk l = true) (r : List Char) :
    indentChars T.toList none ((realise (DF "\n" T) l).toList ++ r) =
      (realise (DF ("\n" ++ T) T) l).toList ++ indentChars T.toList none r := by
  have hN := nl_nonempty
  have hN' := str_append_isEmpty_false T nl_nonempty
  have hT' : T.toList.all plain = true := hT
  have nlstep : ∀ r' : List Char, indentChars T.toList none ('\n' :: r') = ('\n' :: T.toList) ++ indentChars T.toList none r' := by
    intro r'; rw [indentChars_nl]; simp
  induction l with
  | nil => rfl
  | cons a l ih =>
    cases a with
    | tok s =>
      simp only [layOk, Bool.and_eq_true] at hl
      simp only [realise_tok, String.toList_append, List.append_assoc]
      rw [indentChars_tok _ s hl.1, ih hl.2]
    | opt k =>
      simp only [layOk] at hl
      have ih := ih hl
      simp only [realise_opt, String.toList_append, List.append_assoc]
      cases k with
      | nl => simp only [roD_nl T hN, roD_nl T hN', String.toList_append, str_nl_toList, List.cons_append, List.nil_append, nlstep, ih]
      | ws =>
        simp only [roD_ws T hN, roD_ws T hN', str_sp_toList, List.cons_append, List.nil_append]
        rw [indentChars_plain _ _ (by decide), ih]
      | commaWs =>
        simp only [roD_commaWs T hN, roD_commaWs T hN', str_sp_toList, List.cons_append, List.nil_append]
        rw [indentChars_plain _ _ (by decide), ih]
      | indent n =>
        simp only [roD_indent T hN, roD_indent T hN']
        rw [indentChars_plainL _ _ (plain_of_mem_rep hT n), ih]
      | selSep n =>
        simp only [roD_selSep T hN, roD_selSep T hN', String.toList_append, str_nl_toList, List.cons_append,
          List.nil_append, List.append_assoc, nlstep]
        rw [indentChars_plainL _ _ (plain_of_mem_rep hT n), ih]
      | eb => simp only [roD_eb T hN, roD_eb T hN', String.toList_append, str_nl_toList, List.cons_append, List.nil_append, nlstep, ih]
      | ebInner => simp only [roD_ebInner T hN, roD_ebInner T hN', String.toList_append, str_nl_toList, List.cons_append, List.nil_append, nlstep, ih]
      | ebLast => simp only [roD_ebLast T hN, roD_ebLast T hN', String.toList_append, str_nl_toList, List.cons_append, List.nil_append, nlstep, ih]

/-! ### one more level: the same layout one level deeper, with the indentation unit moved through -/

section Shift
set_option linter.unusedSectionVars false
variable {N : String} (T : String) (hN : N.isEmpty = false)
include hN

theorem tab_rep (d : Nat) (s : String) : T ++ (rep d T ++ s) = rep (d + 1) T ++ s := by
  rw [rep_succ, String.append_assoc]

theorem shift_sels (d : Nat) (sels : List (List SelPiece)) :
    realise (DF (N ++ T) T) (laySels d sels) = realise (DF N T) (laySels (d + 1) sels) := by
  apply realise_laySels_congr (DF (N ++ T) T) (DF N T) d (d + 1) rfl
  rw [roD_selSep T hN, roD_selSep T (str_append_isEmpty_false T hN), rep_succ, String.append_assoc]

theorem shift_value (v : List ValPiece) :
    realise (DF (N ++ T) T) (layValue v) = realise (DF N T) (layValue v) := by
  apply realise_layValue_congr
  rw [roD_commaWs T hN, roD_commaWs T (str_append_isEmpty_false T hN)]

theorem shift_decl (d : Nat) (x : Decl) (s : String) :
    T ++ (realise (DF (N ++ T) T) (layDecl d x) ++ s) = realise (DF N T) (layDecl (d + 1) x) ++ (T ++ s) := by
  have hN' := str_append_isEmpty_false T hN
  unfold layDecl
  cases x.important <;>
    simp only [realise_append, realise_opt, realise_tok, realise_nil, roD_indent T hN, roD_indent T hN',
      roD_ws T hN, roD_ws T hN', roD_nl T hN, roD_nl T hN', shift_value T hN,
      String.append_assoc, String.append_empty, if_true, if_false, Bool.false_eq_true,
      tab_rep T hN]

theorem shift_decls (d : Nat) (ds : List Decl) (s : String) :
    T ++ (realise (DF (N ++ T) T) (layDecls d ds) ++ s) =
      realise (DF N T) (layDecls (d + 1) ds) ++ (T ++ s) := by
  induction ds generalizing s with
  | nil => simp [layDecls]
  | cons x r ih =>
    simp only [layDecls, realise_append, String.append_assoc]
    rw [shift_decl T hN, ih]

mutual
theorem shift_node : ∀ (n : Node) (d : Nat) (pos pos' : Pos) (s : String),
    T ++ (realise (DF (N ++ T) T) (layNode d pos n) ++ s) =
      realise (DF N T) (layNode (d + 1) pos' n) ++ (T ++ s)
  | .rule sels decls, d, pos, pos', s => by
      have hN' := str_append_isEmpty_false T hN
      rw [layNode_rule, layNode_rule]
      split
      · simp
      · simp only [realise_append, realise_opt, realise_tok, realise_nil, roD_indent T hN, roD_indent T hN',
          roD_ws T hN, roD_ws T hN', roD_nl T hN, roD_nl T hN', roD_close T hN, roD_close T hN',
          shift_sels T hN, String.append_assoc, String.append_empty, tab_rep T hN, shift_decls T hN]
  | .nest p inner, d, pos, pos', s => by
      have hN' := str_append_isEmpty_false T hN
      rw [layNode_nest, layNode_nest]
      split
      · simp
      · simp only [realise_append, realise_opt, realise_tok, realise_nil, roD_indent T hN, roD_indent T hN',
          roD_ws T hN, roD_ws T hN', roD_nl T hN, roD_nl T hN', roD_close T hN, roD_close T hN',
          String.append_assoc, String.append_empty, tab_rep T hN, shift_nodes inner (d + 1)]
  | .stmt t, d, pos, pos', s => by
      have hN' := str_append_isEmpty_false T hN
      simp only [layNode_stmt, realise_opt, realise_tok, realise_nil, roD_indent T hN,
        roD_indent T hN', roD_close T hN, roD_close T hN', String.append_assoc, String.append_empty,
        tab_rep T hN]
theorem shift_nodes : ∀ (ns : List Node) (d : Nat) (s : String),
    T ++ (realise (DF (N ++ T) T) (layNodes d ns) ++ s) =
      realise (DF N T) (layNodes (d + 1) ns) ++ (T ++ s)
  | [], d, s => by simp [layNodes_nil]
  | [n], d, s => by
      rw [layNodes_single, layNodes_single]
      exact shift_node n d _ _ s
  | n :: n' :: r, d, s => by
      rw [layNodes_cons2, layNodes_cons2]
      simp only [realise_append, String.append_assoc]
      rw [shift_node n d _ _ _, shift_nodes (n' :: r) d s]
end

end Shift

/-! ### cleanliness of the layouts of clean nodes -/

theorem innerOk_topOk (n : Node) (h : innerOk n = true) : topOk n = true := by
  cases n with
  | rule sels decls => rfl
  | nest p inner =>
    simp only [innerOk, Bool.and_eq_true] at h
    simpa [topOk] using h.2
  | stmt t => rfl

theorem innerOkL_cons (n : Node) (r : List Node) : innerOkL (n :: r) = (innerOk n && innerOkL r) := by
  simp [innerOkL]

theorem layOk_laySel (s : List SelPiece) (h : s.all selPieceOk = true) : layOk (laySel s) = true := by
  induction s with
  | nil => rfl
  | cons p r ih =>
    simp only [List.all_cons, Bool.and_eq_true] at h
    cases p with
    | text t => simpa [laySel, layOk, ih h.2, selPieceOk] using h.1
    | comb c => simpa [laySel, layOk, ih h.2, selPieceOk] using h.1

theorem tokOk_comma : tokOk "," = true := by decide
theorem tokOk_lbrace : tokOk "{" = true := by decide
theorem tokOk_rbrace : tokOk "}" = true := by decide
theorem tokOk_colon : tokOk ":" = true := by decide
theorem tokOk_semi : tokOk ";" = true := by decide
theorem tokOk_space : tokOk " " = true := by decide
theorem tokOk_important : tokOk " !important" = true := by decide

theorem layOk_laySels (d : Nat) (sels : List (List SelPiece))
    (h : sels.all (fun s => s.all selPieceOk) = true) : layOk (laySels d sels) = true := by
  induction sels with
  | nil => rfl
  | cons s r ih =>
    simp only [List.all_cons, Bool.and_eq_true] at h
    cases r with
    | nil => simpa [laySels] using layOk_laySel s h.1
    | cons s' r =>
      simp only [laySels, layOk_append, layOk, layOk_laySel s h.1, ih h.2, tokOk_comma, Bool.and_self]

theorem layOk_layValue (v : List ValPiece) (h : v.all valPieceOk = true) : layOk (layValue v) = true := by
  induction v with
  | nil => rfl
  | cons p r ih =>
    simp only [List.all_cons, Bool.and_eq_true] at h
    cases p with
    | tok t => simpa [layValue, layOk, ih h.2, valPieceOk] using h.1
    | sp => simp [layValue, layOk, ih h.2, tokOk_space]
    | comma => simp [layValue, layOk, ih h.2, tokOk_comma]

theorem layOk_layDecl (d : Nat) (x : Decl) (h : declOk x = true) : layOk (layDecl d x) = true := by
  simp only [declOk, Bool.and_eq_true] at h
  unfold layDecl
  cases x.important <;>
    simp [layOk_append, layOk, h.1, layOk_layValue _ h.2, tokOk_colon, tokOk_semi, tokOk_important]

theorem layOk_layDecls (d : Nat) (ds : List Decl) (h : ds.all declOk = true) :
    layOk (layDecls d ds) = true := by
  induction ds with
  | nil => rfl
  | cons x r ih =>
    simp only [List.all_cons, Bool.and_eq_true] at h
    simp [layDecls, layOk_append, layOk_layDecl d x h.1, ih h.2]

mutual
theorem layOk_layNode : ∀ (n : Node) (d : Nat) (pos : Pos), innerOk n = true → layOk (layNode d pos n) = true
  | .rule sels decls, d, pos, h => by
      simp only [innerOk, Bool.and_eq_true] at h
      rw [layNode_rule]
      split
      · rfl
      · simp [layOk_append, layOk, layOk_laySels d sels h.1.1.2, layOk_layDecls (d + 1) decls h.1.2,
          tokOk_lbrace, tokOk_rbrace]
  | .nest p inner, d, pos, h => by
      simp only [innerOk, Bool.and_eq_true] at h
      rw [layNode_nest]
      split
      · rfl
      · simp [layOk_append, layOk, h.1.1.2, layOk_layNodes inner (d + 1) h.2, tokOk_lbrace, tokOk_rbrace]
  | .stmt t, d, pos, h => by
      simp only [innerOk, Bool.and_eq_true] at h
      simp [layNode_stmt, layOk, h.1.1]
theorem layOk_layNodes : ∀ (ns : List Node) (d : Nat), innerOkL ns = true → layOk (layNodes d ns) = true
  | [], d, _ => by simp [layNodes_nil, layOk]
  | [n], d, h => by
      simp only [innerOkL_cons, Bool.and_eq_true] at h
      rw [layNodes_single]
      exact layOk_layNode n d _ h.1
  | n :: n' :: r, d, h => by
      rw [innerOkL_cons, Bool.and_eq_true] at h
      rw [layNodes_cons2, layOk_append, layOk_layNode n d _ h.1, layOk_layNodes (n' :: r) d h.2]
      rfl
end

/-- a printing node ends with its closing optional item -/
theorem layNode_last (n : Node) (d : Nat) (pos : Pos) (h : innerOk n = true) :
    ∃ front, layNode d pos n = front ++ [.opt (closeOpt pos)] := by
  cases n with
  | rule sels decls =>
    simp only [innerOk, Bool.and_eq_true, Bool.not_eq_true'] at h
    rw [layNode_rule, h.1.1.1]
    exact ⟨[.opt (.indent d)] ++ laySels d sels ++ [.opt .ws, .tok "{", .opt .nl] ++ layDecls (d + 1) decls ++
        [.opt (.indent d), .tok "}"], by simp⟩
  | nest p inner =>
    simp only [innerOk, Bool.and_eq_true, Bool.not_eq_true'] at h
    rw [layNode_nest, h.1.1.1]
    exact ⟨[.opt (.indent d), .tok p, .opt .ws, .tok "{", .opt .nl] ++ layNodes (d + 1) inner ++
        [.opt (.indent d), .tok "}"], by simp⟩
  | stmt t => exact ⟨[.opt (.indent d), .tok t], by simp [layNode_stmt]⟩

theorem layNodes_last : ∀ (ns : List Node) (d : Nat), innerOkL ns = true → ns ≠ [] →
    ∃ front pos, layNodes d ns = front ++ [.opt (closeOpt pos)]
  | [], _, _, hne => absurd rfl hne
  | [n], d, h, _ => by
      simp only [innerOkL_cons, Bool.and_eq_true] at h
      rw [layNodes_single]
      obtain ⟨front, hf⟩ := layNode_last n d (if d = 0 then .top else .last) h.1
      exact ⟨front, _, hf⟩
  | n :: n' :: r, d, h, _ => by
      rw [innerOkL_cons, Bool.and_eq_true] at h
      obtain ⟨front, pos, hf⟩ := layNodes_last (n' :: r) d h.2 (by simp)
      rw [layNodes_cons2, hf]
      exact ⟨layNode d (if d = 0 then .top else .inner) n ++ front, pos, by simp⟩

/-! ### `rstrip`, `strip` -/

theorem dropWhile_append_stop' {α : Type} {p : α → Bool} (l : List α) (x : α) (r : List α)
    (hl : ∀ c ∈ l, p c = true) (hx : p x = false) : (l ++ x :: r).dropWhile p = x :: r := by
  induction l with
  | nil => simp [hx]
  | cons a l ih =>
    have ha : p a = true := hl a (by simp)
    simp only [List.cons_append, List.dropWhile, ha]
    exact ih (fun c hc => hl c (by simp [hc]))

theorem dropWhile_all {α : Type} {p : α → Bool} (l : List α) (hl : ∀ c ∈ l, p c = true) :
    l.dropWhile p = [] := by
  induction l with
  | nil => rfl
  | cons a l ih =>
    have ha : p a = true := hl a (by simp)
    simp only [List.dropWhile, ha]
    exact ih (fun c hc => hl c (by simp [hc]))

theorem rstripChars_tab (T X : List Char) (hT : T.all plain = true) :
    rstripChars T (X ++ '\n' :: T) = X ++ ['\n'] := by
  unfold rstripChars
  have hnl : T.contains '\n' = false := by
    cases hc : T.contains '\n' with
    | false => rfl
    | true =>
      simp only [List.contains_iff_mem] at hc
      have := List.all_eq_true.1 hT _ hc
      simp [plain] at this
  have : (X ++ '\n' :: T).reverse = T.reverse ++ '\n' :: X.reverse := by simp
  rw [this, dropWhile_append_stop' _ _ _ (fun c hc => by simpa using hc) hnl]
  simp

theorem rstripChars_nil (s : List Char) : rstripChars [] s = s := by
  unfold rstripChars
  have : s.reverse.dropWhile (fun c => ([] : List Char).contains c) = s.reverse := by
    cases s.reverse <;> simp [List.dropWhile]
  rw [this, List.reverse_reverse]

theorem headOk_append (a b : List Char) (h : headOk a = true) : headOk (a ++ b) = true := by
  cases a with
  | nil => simp [headOk] at h
  | cons c a => simpa [headOk] using h

theorem headOk_rev_append (a b : List Char) (h : headOk b.reverse = true) :
    headOk (a ++ b).reverse = true := by
  rw [List.reverse_append]; exact headOk_append _ _ h

theorem dropWhile_headOk (l : List Char) (h : headOk l = true) : l.dropWhile isWs = l := by
  cases l with
  | nil => rfl
  | cons c l =>
    simp only [headOk, Bool.not_eq_true'] at h
    simp [List.dropWhile, h]

theorem strip_append_ws (Y E : String) (hh : headOk Y.toList = true) (hl : headOk Y.toList.reverse = true)
    (hE : wsOnly E = true) : strip (Y ++ E) = Y := by
  unfold strip
  rw [String.toList_append, dropWhile_headOk _ (headOk_append _ _ hh), List.reverse_append]
  have hE' : ∀ c ∈ E.toList.reverse, isWs c = true := by
    intro c hc
    exact List.all_eq_true.1 hE c (by simpa using hc)
  cases hY : Y.toList.reverse with
  | nil => rw [hY] at hl; simp [headOk] at hl
  | cons c r =>
    rw [hY] at hl
    simp only [headOk, Bool.not_eq_true'] at hl
    rw [dropWhile_append_stop' _ _ _ hE' hl, ← hY, List.reverse_reverse, String.ofList_toList]

/-! ### the printer in non-minified mode -/

section MainD
set_option linter.unusedSectionVars false
variable (T : String) (hT : TOk T = true)

theorem indent_D (s : String) :
    indent (DF "\n" T) s = String.ofList (indentChars T.toList none s.toList) := by
  unfold indent
  have h1 : (DF "\n" T).nl.isEmpty = false := nl_nonempty
  have h2 : (DF "\n" T).tab = T := rfl
  rw [h1, h2]
  cases hT' : T.isEmpty with
  | false => rfl
  | true =>
    rw [String.isEmpty_iff] at hT'
    subst hT'
    simp [indentChars_nil_tab]

theorem str_ofList_nl : String.ofList ['\n'] = "\n" := by decide

include hT in
/-- the body of an at-rule block: the inner blocks printed at level 0, re-indented, `rstrip`ped and
    prefixed with one unit, are the inner blocks laid out at level 1 -/
theorem nestBody_D (inner : List Node) (hne : inner ≠ []) (h : innerOkL inner = true) :
    T ++ String.ofList (rstripChars T.toList
          (indent (DF "\n" T) (realise (DF "\n" T) (layNodes 0 inner))).toList) =
      realise (DF "\n" T) (layNodes 1 inner) := by
  obtain ⟨front, pos, hf⟩ := layNodes_last inner 0 h hne
  have hN' := str_append_isEmpty_false T nl_nonempty
  have hind := indent_realise T hT (layNodes 0 inner) (layOk_layNodes inner 0 h) []
  simp only [List.append_nil, indentChars] at hind
  rw [indent_D, String.toList_ofList, hind, hf, realise_append, realise_opt, realise_nil, roD_close T hN',
    String.append_empty, String.toList_append, String.toList_append, str_nl_toList]
  have hr := rstripChars_tab T.toList (realise (DF ("\n" ++ T) T) front).toList hT
  simp only [List.cons_append, List.nil_append] at hr ⊢
  rw [hr]
  have hs := shift_nodes T nl_nonempty inner 0 ""
  rw [hf, realise_append, realise_opt, realise_nil, roD_close T hN'] at hs
  simp only [String.append_empty] at hs
  apply str_append_cancel_right (c := T)
  rw [← hs, String.ofList_append, String.ofList_toList, str_ofList_nl]
  simp only [String.append_assoc]

include hT in
mutual
theorem mainD_node : ∀ (n : Node) (pos : Pos), topOk n = true →
    fmtNode (DF "\n" T) n = realise (DF "\n" T) (layNode 0 pos n)
  | .rule sels decls, pos, _ => by
      have hI : realiseOpt (DF "\n" T) (.indent 1) = (DF "\n" T).tab := by
        rw [roD_indent T nl_nonempty, rep_one]; rfl
      rw [fmtNode_rule, layNode_rule]
      split
      · rfl
      · simp only [realise_append, realise_opt, realise_tok, realise_nil, roD_indent T nl_nonempty,
          roD_ws T nl_nonempty, roD_nl T nl_nonempty, roD_close T nl_nonempty, rep_zero,
          ← fmtIdent_eq, ← fmtDecls_eq _ hI, String.append_assoc, String.append_empty, String.empty_append]
        rfl
  | .nest p inner, pos, h => by
      rw [fmtNode_nest, layNode_nest]
      split
      · rfl
      · next hne =>
        have hne' : inner ≠ [] := by intro h0; subst h0; simp at hne
        have h1 : (DF "\n" T).nl.isEmpty = false := nl_nonempty
        simp only [h1, Bool.false_eq_true, if_false]
        rw [mainD_nodes inner h]
        have hb := nestBody_D T hT inner hne' h
        have h2 : (DF "\n" T).tab = T := rfl
        rw [h2]
        simp only [realise_append, realise_opt, realise_tok, realise_nil, roD_indent T nl_nonempty,
          roD_ws T nl_nonempty, roD_nl T nl_nonempty, roD_close T nl_nonempty, rep_zero,
          String.append_assoc, String.append_empty, String.empty_append, ← hb]
        rfl
  | .stmt t, pos, _ => by
      rw [fmtNode_stmt, layNode_stmt]
      simp only [realise_opt, realise_tok, realise_nil, roD_indent T nl_nonempty, roD_close T nl_nonempty,
        rep_zero, String.append_empty, String.empty_append]
      rfl
theorem mainD_nodes : ∀ (ns : List Node), innerOkL ns = true →
    fmtNodes (DF "\n" T) ns = realise (DF "\n" T) (layNodes 0 ns)
  | [], _ => by simp [fmtNodes_nil, layNodes_nil]
  | n :: r, h => by
      rw [innerOkL_cons, Bool.and_eq_true] at h
      rw [fmtNodes_cons, layNodes_zero_cons, realise_append, mainD_node n .top (innerOk_topOk n h.1),
        mainD_nodes r h.2]
end

include hT in
theorem mainD_sheet (sheet : List Node) (h : Clean sheet = true) :
    fmtNodes (DF "\n" T) sheet = realise (DF "\n" T) (layNodes 0 sheet) := by
  induction sheet with
  | nil => simp [fmtNodes_nil, layNodes_nil]
  | cons n r ih =>
    simp only [Clean, List.all_cons, Bool.and_eq_true] at h
    rw [fmtNodes_cons, layNodes_zero_cons, realise_append, mainD_node T hT n .top h.1]
    rw [ih (by simpa [Clean] using h.2)]

end MainD

/-! ### the printer in minified mode -/

section MainM
set_option linter.unusedSectionVars false
variable (E : String) (hE : wsOnly E = true)

theorem fmtSel_congr (f g : Fills) (h : f.ws = g.ws) (s : List SelPiece) : fmtSel f s = fmtSel g s := by
  rw [fmtSel_eq, fmtSel_eq, realise_laySel_congr f g h]

theorem fmtIdent_M (sels : List (List SelPiece)) : fmtIdent (MF E) sels = fmtIdent minFills sels := by
  have : (fun s => fmtSel (MF E) s) = (fun s => fmtSel minFills s) :=
    funext (fun s => fmtSel_congr (MF E) minFills rfl s)
  unfold fmtIdent
  rw [show fmtSel (MF E) = fun s => fmtSel (MF E) s from rfl, this]
  rfl

theorem realiseM_sels (d : Nat) (sels : List (List SelPiece)) :
    realise (MF E) (laySels d sels) = fmtIdent (MF E) sels := by
  rw [fmtIdent_eq]
  exact realise_laySels_congr _ _ d 0 rfl (by rw [roM_selSep, roM_selSep]) sels

theorem realiseM_decls (d : Nat) (ds : List Decl) :
    realise (MF E) (layDecls d ds) = fmtDecls (MF E) ds := by
  rw [fmtDecls_eq _ (roM_indent E 1)]
  exact realise_layDecls_congr _ d 1 (by rw [roM_indent, roM_indent]) ds

theorem realiseM_rule (d : Nat) (pos : Pos) (sels : List (List SelPiece)) (decls : List Decl)
    (h : decls.isEmpty = false) :
    realise (MF E) (layNode d pos (.rule sels decls)) =
      fmtIdent minFills sels ++ "{" ++ (fmtDecls (MF E) decls ++ "}") ++ realiseOpt (MF E) (closeOpt pos) := by
  rw [layNode_rule, h]
  simp only [Bool.false_eq_true, if_false, realise_append, realise_opt, realise_tok, realise_nil,
    roM_indent, roM_ws, roM_nl, realiseM_sels, realiseM_decls, fmtIdent_M, String.append_assoc,
    String.append_empty, String.empty_append]

theorem realiseM_nest (d : Nat) (pos : Pos) (p : String) (inner : List Node) (h : inner.isEmpty = false) :
    realise (MF E) (layNode d pos (.nest p inner)) =
      p ++ "{" ++ (realise (MF E) (layNodes (d + 1) inner) ++ "}") ++ realiseOpt (MF E) (closeOpt pos) := by
  rw [layNode_nest, h]
  simp only [Bool.false_eq_true, if_false, realise_append, realise_opt, realise_tok, realise_nil,
    roM_indent, roM_ws, roM_nl, String.append_assoc, String.append_empty, String.empty_append]

theorem realiseM_stmt (d : Nat) (pos : Pos) (t : String) :
    realise (MF E) (layNode d pos (.stmt t)) = t ++ realiseOpt (MF E) (closeOpt pos) := by
  rw [layNode_stmt]
  simp only [realise_opt, realise_tok, realise_nil, roM_indent, String.append_empty, String.empty_append]

theorem closeM_top : realiseOpt (MF E) (closeOpt .top) = E := rfl
theorem closeM_inner : realiseOpt (MF E) (closeOpt .inner) = E := roM_ebInner E
theorem closeM_last : realiseOpt (MF E) (closeOpt .last) = "" := rfl

theorem posM_inner (n : Node) (d : Nat) :
    realise (MF E) (layNode d .inner n) = realise (MF E) (layNode d .top n) := by
  cases n with
  | rule sels decls =>
    cases h : decls.isEmpty with
    | true => rw [layNode_rule, layNode_rule, h]; rfl
    | false => rw [realiseM_rule E d _ sels decls h, realiseM_rule E d _ sels decls h, closeM_top, closeM_inner]
  | nest p inner =>
    cases h : inner.isEmpty with
    | true => rw [layNode_nest, layNode_nest, h]; rfl
    | false => rw [realiseM_nest E d _ p inner h, realiseM_nest E d _ p inner h, closeM_top, closeM_inner]
  | stmt t => rw [realiseM_stmt, realiseM_stmt, closeM_top, closeM_inner]

theorem posM_last (n : Node) (d : Nat) (hn : innerOk n = true) :
    realise (MF E) (layNode d .top n) = realise (MF E) (layNode d .last n) ++ E := by
  cases n with
  | rule sels decls =>
    simp only [innerOk, Bool.and_eq_true, Bool.not_eq_true'] at hn
    rw [realiseM_rule E d _ sels decls hn.1.1.1, realiseM_rule E d _ sels decls hn.1.1.1, closeM_top,
      closeM_last, String.append_empty]
  | nest p inner =>
    simp only [innerOk, Bool.and_eq_true, Bool.not_eq_true'] at hn
    rw [realiseM_nest E d _ p inner hn.1.1.1, realiseM_nest E d _ p inner hn.1.1.1, closeM_top,
      closeM_last, String.append_empty]
  | stmt t => rw [realiseM_stmt, realiseM_stmt, closeM_top, closeM_last, String.append_empty]

theorem str_rbrace_toList : ("}" : String).toList = ['}'] := by decide

theorem headM_node (n : Node) (d : Nat) (pos : Pos) (hn : innerOk n = true) :
    headOk (realise (MF E) (layNode d pos n)).toList = true := by
  cases n with
  | rule sels decls =>
    simp only [innerOk, Bool.and_eq_true, Bool.not_eq_true'] at hn
    rw [realiseM_rule E d _ sels decls hn.1.1.1, String.append_assoc, String.toList_append]
    exact headOk_append _ _ hn.2
  | nest p inner =>
    simp only [innerOk, Bool.and_eq_true, Bool.not_eq_true'] at hn
    rw [realiseM_nest E d _ p inner hn.1.1.1, String.append_assoc, String.toList_append]
    exact headOk_append _ _ hn.1.2
  | stmt t =>
    simp only [innerOk, Bool.and_eq_true] at hn
    rw [realiseM_stmt, String.toList_append]
    exact headOk_append _ _ hn.1.2

theorem lastM_node (n : Node) (d : Nat) (hn : innerOk n = true) :
    headOk (realise (MF E) (layNode d .last n)).toList.reverse = true := by
  cases n with
  | rule sels decls =>
    simp only [innerOk, Bool.and_eq_true, Bool.not_eq_true'] at hn
    rw [realiseM_rule E d _ sels decls hn.1.1.1, closeM_last, String.append_empty]
    simp only [String.toList_append]
    apply headOk_rev_append; apply headOk_rev_append
    rw [str_rbrace_toList]; decide
  | nest p inner =>
    simp only [innerOk, Bool.and_eq_true, Bool.not_eq_true'] at hn
    rw [realiseM_nest E d _ p inner hn.1.1.1, closeM_last, String.append_empty]
    simp only [String.toList_append]
    apply headOk_rev_append; apply headOk_rev_append
    rw [str_rbrace_toList]; decide
  | stmt t =>
    simp only [innerOk, Bool.and_eq_true] at hn
    rw [realiseM_stmt, closeM_last, String.append_empty]
    exact hn.2

theorem headM_nodes : ∀ (ns : List Node) (d : Nat), innerOkL ns = true → ns ≠ [] →
    headOk (realise (MF E) (layNodes d ns)).toList = true
  | [], _, _, hne => absurd rfl hne
  | [n], d, h, _ => by
      simp only [innerOkL_cons, Bool.and_eq_true] at h
      rw [layNodes_single]
      exact headM_node E n d _ h.1
  | n :: n' :: r, d, h, _ => by
      rw [innerOkL_cons, Bool.and_eq_true] at h
      rw [layNodes_cons2, realise_append, String.toList_append]
      exact headOk_append _ _ (headM_node E n d _ h.1)

theorem lastM_nodes : ∀ (ns : List Node) (d : Nat), innerOkL ns = true → ns ≠ [] →
    headOk (realise (MF E) (layNodes (d + 1) ns)).toList.reverse = true
  | [], _, _, hne => absurd rfl hne
  | [n], d, h, _ => by
      simp only [innerOkL_cons, Bool.and_eq_true] at h
      rw [layNodes_single]
      simp only [Nat.add_one_ne_zero, if_false]
      exact lastM_node E n (d + 1) h.1
  | n :: n' :: r, d, h, _ => by
      rw [innerOkL_cons, Bool.and_eq_true] at h
      rw [layNodes_cons2, realise_append, String.toList_append]
      exact headOk_rev_append _ _ (lastM_nodes (n' :: r) d h.2 (by simp))

theorem indent_M (s : String) : indent (MF E) s = s := by
  unfold indent
  have : (MF E).nl.isEmpty = true := (by decide : ("" : String).isEmpty = true)
  simp [this]

include hE in
mutual
theorem mainM_node : ∀ (n : Node) (d : Nat), topOk n = true →
    fmtNode (MF E) n = realise (MF E) (layNode d .top n)
  | .rule sels decls, d, _ => by
      cases h : decls.isEmpty with
      | true => rw [fmtNode_rule, layNode_rule, h]; rfl
      | false =>
        rw [realiseM_rule E d _ sels decls h, fmtNode_rule, h, fmtIdent_M, closeM_top]
        simp only [Bool.false_eq_true, if_false, String.append_assoc]
        show _ ++ ("" ++ ("{" ++ ("" ++ _))) = _
        simp only [String.empty_append]
        rfl
  | .nest p inner, d, h => by
      cases hi : inner.isEmpty with
      | true => rw [fmtNode_nest, layNode_nest, hi]; rfl
      | false =>
        have hne : inner ≠ [] := by intro h0; subst h0; simp at hi
        have hin := mainM_inner inner d h hne
        rw [realiseM_nest E d _ p inner hi, fmtNode_nest, hi, closeM_top, indent_M, hin]
        have h1 : (MF E).nl.isEmpty = true := (by decide : ("" : String).isEmpty = true)
        have h2 : (MF E).tab.toList = [] := (by decide : ("" : String).toList = [])
        simp only [h1, h2, rstripChars_nil, String.ofList_toList, Bool.false_eq_true, if_false, if_true]
        rw [strip_append_ws _ _ (headM_nodes E inner (d + 1) h hne) (lastM_nodes E inner d h hne) hE]
        simp only [String.append_assoc]
        show _ ++ ("" ++ ("{" ++ ("" ++ ("" ++ _)))) = _
        simp only [String.empty_append]
        rfl
  | .stmt t, d, _ => by
      rw [realiseM_stmt, fmtNode_stmt, closeM_top]; rfl
theorem mainM_inner : ∀ (ns : List Node) (d : Nat), innerOkL ns = true → ns ≠ [] →
    fmtNodes (MF E) ns = realise (MF E) (layNodes (d + 1) ns) ++ E
  | [], _, _, hne => absurd rfl hne
  | [n], d, h, _ => by
      simp only [innerOkL_cons, Bool.and_eq_true] at h
      rw [fmtNodes_cons, fmtNodes_nil, String.append_empty, layNodes_single]
      simp only [Nat.add_one_ne_zero, if_false]
      rw [mainM_node n (d + 1) (innerOk_topOk n h.1), posM_last E n (d + 1) h.1]
  | n :: n' :: r, d, h, _ => by
      rw [innerOkL_cons, Bool.and_eq_true] at h
      rw [fmtNodes_cons, layNodes_cons2, realise_append]
      simp only [Nat.add_one_ne_zero, if_false]
      rw [mainM_node n (d + 1) (innerOk_topOk n h.1), mainM_inner (n' :: r) d h.2 (by simp),
        posM_inner, String.append_assoc]
end

include hE in
theorem mainM_sheet (sheet : List Node) (h : Clean sheet = true) :
    fmtNodes (MF E) sheet = realise (MF E) (layNodes 0 sheet) := by
  induction sheet with
  | nil => simp [fmtNodes_nil, layNodes_nil]
  | cons n r ih =>
    simp only [Clean, List.all_cons, Bool.and_eq_true] at h
    rw [fmtNodes_cons, layNodes_zero_cons, realise_append, mainM_node E hE n 0 h.1]
    rw [ih (by simpa [Clean] using h.2)]

end MainM

/-! ### every option vector -/

theorem TOk_unitOf (o : Opts) : TOk (unitOf o) = true := by
  unfold unitOf
  split
  · decide
  · simp only [TOk, String.toList_ofList, List.all_eq_true]
    intro c hc
    rw [List.eq_of_mem_replicate hc]
    decide

theorem fmtNodes_eq_realise (o : Opts) (sheet : List Node) (h : Clean sheet = true) :
    fmtNodes (fills o) sheet = realise (fills o) (laySheet sheet) := by
  unfold laySheet
  by_cases hm : o.minify = true ∨ o.xminify = true
  · rw [fills_min o hm]
    apply mainM_sheet _ _ sheet h
    split <;> decide
  · have h1 : o.minify = false := by cases hm' : o.minify <;> simp [hm'] at hm ⊢
    have h2 : o.xminify = false := by cases hx : o.xminify <;> simp [hx] at hm ⊢
    rw [fills_default o h1 h2]
    exact mainD_sheet _ (TOk_unitOf o) sheet h

/-! ### the erased text is itself a rendering -/

theorem weave_empty (ts : List String) : weave (List.replicate (ts.length + 1) "") ts = String.join ts := by
  induction ts with
  | nil => rfl
  | cons t ts ih =>
    rw [List.length_cons, List.replicate_succ, weave, ih, join_cons, String.empty_append]

theorem realiseOpt_MF_empty (k : OptK) : realiseOpt (MF "") k = "" := by
  cases k <;> simp [roM_nl, roM_ws, roM_commaWs, roM_indent, roM_selSep, roM_eb, roM_ebInner, roM_ebLast]

theorem realise_MF_empty (l : List Lay) : realise (MF "") l = eraseWs l := by
  induction l with
  | nil => rfl
  | cons a l ih =>
    cases a with
    | tok s => simp only [realise_tok, eraseWs, toks, join_cons] at ih ⊢; rw [ih]
    | opt k => simp only [realise_opt, realiseOpt_MF_empty, String.empty_append, eraseWs, toks] at ih ⊢; exact ih

theorem filter_strip (s : String) : (strip s).toList.filter notWs = s.toList.filter notWs := by
  have drop : ∀ l : List Char, (l.dropWhile isWs).filter notWs = l.filter notWs := by
    intro l
    induction l with
    | nil => rfl
    | cons c l ih =>
      cases hc : isWs c with
      | true => simp [List.dropWhile, hc, ih, notWs]
      | false => simp [List.dropWhile, hc]
  unfold strip
  rw [String.toList_ofList, List.filter_reverse, drop, List.filter_reverse, List.reverse_reverse, drop]

/-! ### minified: no optional whitespace inside a rule -/

/-- the layout contains no end-of-block item `eb` / `ebInner` -/
def noEb : List Lay → Bool
  | [] => true
  | .tok _ :: r => noEb r
  | .opt .eb :: _ => false
  | .opt .ebInner :: _ => false
  | .opt _ :: r => noEb r

theorem noEb_append (a b : List Lay) : noEb (a ++ b) = (noEb a && noEb b) := by
  induction a with
  | nil => simp [noEb]
  | cons x a ih =>
    cases x with
    | tok s => simp [noEb, ih]
    | opt k => cases k <;> simp [noEb, ih]

theorem eraseWs_append (a b : List Lay) : eraseWs (a ++ b) = eraseWs a ++ eraseWs b := by
  induction a with
  | nil => simp [eraseWs, toks]
  | cons x a ih =>
    cases x with
    | tok s => simp only [eraseWs, List.cons_append, toks, join_cons, String.append_assoc] at ih ⊢; rw [ih]
    | opt k => simpa only [eraseWs, List.cons_append, toks] using ih

theorem realise_MF_noEb (E : String) (l : List Lay) (h : noEb l = true) : realise (MF E) l = eraseWs l := by
  induction l with
  | nil => rfl
  | cons a l ih =>
    cases a with
    | tok s =>
      simp only [noEb] at h
      simp only [realise_tok, eraseWs, toks, join_cons] at ih ⊢; rw [ih h]
    | opt k =>
      cases k <;> simp only [noEb, Bool.false_eq_true] at h <;>
        simp only [realise_opt, roM_nl, roM_ws, roM_commaWs, roM_indent, roM_selSep, roM_ebLast,
          String.empty_append, eraseWs, toks] at ih ⊢ <;> exact ih h

theorem noEb_laySel (s : List SelPiece) : noEb (laySel s) = true := by
  induction s with
  | nil => rfl
  | cons p r ih => cases p <;> simp [laySel, noEb, ih]

theorem noEb_laySels (d : Nat) (sels : List (List SelPiece)) : noEb (laySels d sels) = true := by
  induction sels with
  | nil => rfl
  | cons s r ih =>
    cases r with
    | nil => simp [laySels, noEb_laySel]
    | cons s' r => simp [laySels, noEb_append, noEb, noEb_laySel, ih]

theorem noEb_layValue (v : List ValPiece) : noEb (layValue v) = true := by
  induction v with
  | nil => rfl
  | cons p r ih => cases p <;> simp [layValue, noEb, ih]

theorem noEb_layDecls (d : Nat) (ds : List Decl) : noEb (layDecls d ds) = true := by
  induction ds with
  | nil => rfl
  | cons x r ih =>
    simp only [layDecls, layDecl, noEb_append, ih]
    cases x.important <;> simp [noEb, noEb_layValue]

/-- the part of a rule's layout before its closing item -/
def ruleFront (d : Nat) (sels : List (List SelPiece)) (decls : List Decl) : List Lay :=
  [.opt (.indent d)] ++ laySels d sels ++ [.opt .ws, .tok "{", .opt .nl] ++ layDecls (d + 1) decls ++
    [.opt (.indent d), .tok "}"]

theorem noEb_ruleFront (d : Nat) (sels : List (List SelPiece)) (decls : List Decl) :
    noEb (ruleFront d sels decls) = true := by
  simp [ruleFront, noEb_append, noEb, noEb_laySels, noEb_layDecls]

theorem layNode_rule_front (d : Nat) (pos : Pos) (sels : List (List SelPiece)) (decls : List Decl)
    (h : decls.isEmpty = false) :
    layNode d pos (.rule sels decls) = ruleFront d sels decls ++ [.opt (closeOpt pos)] := by
  rw [layNode_rule, h]; simp [ruleFront]

end Lessm.Print
