/-
  Helper lemmas for C03 (variables): dictionary semantics of frames, substitution, the closure of
  names reachable through definitions, and the invariant relating the model's two passes to the
  hoisted lexical environment of the specification.
-/
import Lessm.Spec.VarsSpec

namespace Lessm.Vars

/-! ### frames and lookup -/

theorem Frame.get_set_self (f : Frame) (n : String) (v : Value) :
    Frame.get (Frame.set f n v) n = some v := by
  induction f with
  | nil => simp [Frame.set, Frame.get]
  | cons kw r ih =>
    obtain ⟨k, w⟩ := kw
    by_cases h : k = n
    · simp [Frame.set, Frame.get, h]
    · simp [Frame.set, Frame.get, h, ih]

theorem Frame.get_set_ne (f : Frame) {m n : String} (h : m ≠ n) (v : Value) :
    Frame.get (Frame.set f n v) m = Frame.get f m := by
  induction f with
  | nil => simp [Frame.set, Frame.get, Ne.symm h]
  | cons kw r ih =>
    obtain ⟨k, w⟩ := kw
    by_cases hk : k = n
    · subst hk
      simp [Frame.set, Frame.get, Ne.symm h]
    · by_cases hm : k = m
      · subst hm
        simp [Frame.set, Frame.get, hk]
      · simp [Frame.set, Frame.get, hk, hm, ih]

theorem lookup_cons (f : Frame) (sc : Scope) (n : String) :
    lookup (f :: sc) n = (match f.get n with | some v => some v | none => lookup sc n) := rfl

theorem lookup_nil_cons (sc : Scope) (n : String) : lookup ([] :: sc) n = lookup sc n := by
  simp [lookup, Frame.get]


/-! ### substitution -/

theorem refsOf_append (a b : Value) : refsOf (a ++ b) = refsOf a ++ refsOf b := by
  induction a with
  | nil => rfl
  | cons t r ih => cases t <;> simp [refsOf, ih]

theorem hasRef_false_iff (v : Value) : hasRef v = false ↔ refsOf v = [] := by
  induction v with
  | nil => simp [hasRef, refsOf]
  | cons t r ih => cases t <;> simp [hasRef, refsOf, ih]

theorem expand_noRef (sc : Scope) : ∀ (fuel : Nat) (v v' : Value),
    expand sc fuel v = .ok v' → hasRef v' = false := by
  intro fuel
  induction fuel with
  | zero =>
    intro v v' h
    unfold expand at h
    split at h
    · cases h
    · cases h; simp_all
  | succ k ih =>
    intro v v' h
    unfold expand at h
    split at h
    · split at h
      · exact ih _ _ h
      · cases h
    · cases h; simp_all

/-- a value without references is a list of literals, printed as it is -/
theorem litText_of_noRef (v : Value) (h : hasRef v = false) :
    v = (litText v).map VTok.lit := by
  induction v with
  | nil => rfl
  | cons t r ih =>
    cases t with
    | lit s => simp only [hasRef] at h; simp only [litText, List.map_cons]; rw [← ih h]
    | ref n => simp [hasRef] at h

theorem substOnce_congr (sc1 sc2 : Scope) (S : List String)
    (hA : ∀ n ∈ S, lookup sc1 n = lookup sc2 n) :
    ∀ v : Value, (∀ n ∈ refsOf v, n ∈ S) → substOnce sc1 v = substOnce sc2 v := by
  intro v
  induction v with
  | nil => intro _; rfl
  | cons t r ih =>
    intro h
    cases t with
    | lit s =>
      have := ih (by simpa [refsOf] using h)
      simp only [substOnce, this]
    | ref n =>
      have h1 : n ∈ S := h n (by simp [refsOf])
      have := ih (fun m hm => h m (by simp [refsOf, hm]))
      simp only [substOnce, this, hA n h1]

theorem substOnce_refs (sc : Scope) (S : List String)
    (hC : ∀ n ∈ S, ∀ w, lookup sc n = some w → ∀ r ∈ refsOf w, r ∈ S) :
    ∀ v v' : Value, (∀ n ∈ refsOf v, n ∈ S) → substOnce sc v = .ok v' → ∀ n ∈ refsOf v', n ∈ S := by
  intro v
  induction v with
  | nil => intro v' _ h; cases h; simp [refsOf]
  | cons t r ih =>
    intro v' h hs
    cases t with
    | lit s =>
      simp only [substOnce] at hs
      cases hr : substOnce sc r with
      | error e => simp [hr, bind, Except.bind] at hs
      | ok r' =>
        simp only [hr, bind, Except.bind, pure, Except.pure] at hs
        cases hs
        simpa [refsOf] using ih r' (by simpa [refsOf] using h) hr
    | ref n =>
      have h1 : n ∈ S := h n (by simp [refsOf])
      simp only [substOnce] at hs
      cases hl : lookup sc n with
      | none => simp [hl] at hs
      | some w =>
        simp only [hl] at hs
        cases hr : substOnce sc r with
        | error e => simp [hr, bind, Except.bind] at hs
        | ok r' =>
          simp only [hr, bind, Except.bind, pure, Except.pure] at hs
          cases hs
          intro m hm
          rw [refsOf_append] at hm
          rcases List.mem_append.mp hm with hm | hm
          · exact hC n h1 w hl m hm
          · exact ih r' (fun m hm => h m (by simp [refsOf, hm])) hr m hm

/-- **congruence of `expand`**: two scopes that agree on a set of names `S` that contains the
    references of the value and is closed under "references of the value found for a name of `S`"
    give the same substitution result (same value or same error). -/
theorem expand_congr (sc1 sc2 : Scope) (S : List String)
    (hA : ∀ n ∈ S, lookup sc1 n = lookup sc2 n)
    (hC : ∀ n ∈ S, ∀ w, lookup sc2 n = some w → ∀ r ∈ refsOf w, r ∈ S) :
    ∀ (fuel : Nat) (v : Value), (∀ n ∈ refsOf v, n ∈ S) → expand sc1 fuel v = expand sc2 fuel v := by
  intro fuel
  induction fuel with
  | zero => intro v _; simp [expand]
  | succ k ih =>
    intro v h
    simp only [expand]
    rw [substOnce_congr sc1 sc2 S hA v h]
    cases hs : substOnce sc2 v with
    | error e => rfl
    | ok v' =>
      simp only
      rw [ih v' (substOnce_refs sc2 S hC v v' h hs)]

/-- one round of substitution that succeeds in a scope whose bindings (on `S`) are also bindings
    of a second scope gives the same value there -/
theorem substOnce_sub (sc1 sc2 : Scope) (S : List String)
    (hA : ∀ n ∈ S, ∀ v, lookup sc1 n = some v → lookup sc2 n = some v) :
    ∀ v v' : Value, (∀ n ∈ refsOf v, n ∈ S) → substOnce sc1 v = .ok v' → substOnce sc2 v = .ok v' := by
  intro v
  induction v with
  | nil => intro v' _ h; exact h
  | cons t r ih =>
    intro v' h hs
    cases t with
    | lit s =>
      simp only [substOnce] at hs ⊢
      cases hr : substOnce sc1 r with
      | error e => simp [hr, bind, Except.bind] at hs
      | ok r' =>
        rw [ih r' (by simpa [refsOf] using h) hr]
        simpa [hr] using hs
    | ref n =>
      have h1 : n ∈ S := h n (by simp [refsOf])
      simp only [substOnce] at hs ⊢
      cases hl : lookup sc1 n with
      | none => simp [hl] at hs
      | some w =>
        rw [hA n h1 w hl]
        simp only [hl] at hs ⊢
        cases hr : substOnce sc1 r with
        | error e => simp [hr, bind, Except.bind] at hs
        | ok r' =>
          rw [ih r' (fun m hm => h m (by simp [refsOf, hm])) hr]
          simpa [hr] using hs

/-- **sub-scope form of `expand`**: a substitution that succeeds in a scope whose bindings (on a
    set of names `S` that contains the references of the value and is closed under the bindings of
    the second scope) are also bindings of a second scope gives the same value there -/
theorem expand_sub (sc1 sc2 : Scope) (S : List String)
    (hA : ∀ n ∈ S, ∀ v, lookup sc1 n = some v → lookup sc2 n = some v)
    (hC : ∀ n ∈ S, ∀ w, lookup sc2 n = some w → ∀ r ∈ refsOf w, r ∈ S) :
    ∀ (fuel : Nat) (v v' : Value), (∀ n ∈ refsOf v, n ∈ S) →
      expand sc1 fuel v = .ok v' → expand sc2 fuel v = .ok v' := by
  intro fuel
  induction fuel with
  | zero => intro v v' _ h; simpa [expand] using h
  | succ k ih =>
    intro v v' h he
    simp only [expand] at he ⊢
    cases hr : hasRef v with
    | false => simpa [hr] using he
    | true =>
      simp only [hr, if_true] at he ⊢
      cases hs : substOnce sc1 v with
      | error e => simp [hs] at he
      | ok w =>
        have hs2 := substOnce_sub sc1 sc2 S hA v w h hs
        simp only [hs] at he
        simp only [hs2]
        exact ih w v' (substOnce_refs sc2 S hC v w h hs2) he

/-- congruence of `resolveSel`: since an interpolation is substituted until no variable is left,
    the set `S` must be closed under the bindings (as for `expand_congr`) -/
theorem resolveSel_congr (sc1 sc2 : Scope) (S : List String)
    (hA : ∀ n ∈ S, lookup sc1 n = lookup sc2 n)
    (hC : ∀ n ∈ S, ∀ w, lookup sc2 n = some w → ∀ r ∈ refsOf w, r ∈ S) :
    ∀ sel : List STok, (∀ n ∈ interpsOf sel, n ∈ S) → resolveSel sc1 sel = resolveSel sc2 sel := by
  intro sel
  induction sel with
  | nil => intro _; rfl
  | cons t r ih =>
    intro h
    cases t with
    | lit s =>
      have := ih (by simpa [interpsOf] using h)
      simp only [resolveSel, this]
    | interp n =>
      have h1 : n ∈ S := h n (by simp [interpsOf])
      have := ih (fun m hm => h m (by simp [interpsOf, hm]))
      have he := expand_congr sc1 sc2 S hA hC 64 [.ref n] (by simpa [refsOf] using h1)
      simp only [resolveSel, this, he]

/-- a selector that could be resolved in a scope whose bindings (on the names reachable from the
    interpolated names) are also bindings of a second scope resolves to the same text there -/
theorem resolveSel_sub (sc1 sc2 : Scope) (S : List String)
    (hA : ∀ n ∈ S, ∀ v, lookup sc1 n = some v → lookup sc2 n = some v)
    (hC : ∀ n ∈ S, ∀ w, lookup sc2 n = some w → ∀ r ∈ refsOf w, r ∈ S) :
    ∀ (sel : List STok) (s : List String), (∀ n ∈ interpsOf sel, n ∈ S) →
      resolveSel sc1 sel = .ok s → resolveSel sc2 sel = .ok s := by
  intro sel
  induction sel with
  | nil => intro s _ h; exact h
  | cons t r ih =>
    intro s h hs
    cases t with
    | lit x =>
      simp only [resolveSel] at hs ⊢
      cases hr : resolveSel sc1 r with
      | error e => simp [hr, bind, Except.bind] at hs
      | ok r' =>
        rw [ih r' (by simpa [interpsOf] using h) hr]
        simpa [hr] using hs
    | interp n =>
      have h1 : n ∈ S := h n (by simp [interpsOf])
      simp only [resolveSel] at hs ⊢
      cases hl : expand sc1 64 [.ref n] with
      | error e => simp [hl] at hs
      | ok w =>
        rw [expand_sub sc1 sc2 S hA hC 64 [.ref n] w (by simpa [refsOf] using h1) hl]
        simp only [hl] at hs ⊢
        cases hr : resolveSel sc1 r with
        | error e => simp [hr, bind, Except.bind] at hs
        | ok r' =>
          rw [ih r' (fun m hm => h m (by simp [interpsOf, hm])) hr]
          simpa [hr] using hs

/-! ### names reachable through definitions: `closure defs defs.length` is a fix-point -/

/-- `S` is closed under one step of reachability through `defs` -/
def Closed (defs : List (String × Value)) (S : List String) : Prop :=
  ∀ n ∈ S, ∀ v, (n, v) ∈ defs → ∀ r ∈ refsOf v, r ∈ S

theorem mem_stepReach (defs : List (String × Value)) (ns : List String) (r : String) :
    r ∈ stepReach defs ns ↔ r ∈ ns ∨ ∃ n v, (n, v) ∈ defs ∧ n ∈ ns ∧ r ∈ refsOf v := by
  unfold stepReach
  simp only [List.mem_append, List.mem_flatMap, List.mem_filter, List.contains_iff_mem]
  constructor
  · rintro (h | ⟨⟨n, v⟩, ⟨h1, h2⟩, h3⟩)
    · exact Or.inl h
    · exact Or.inr ⟨n, v, h1, h2, h3⟩
  · rintro (h | ⟨n, v, h1, h2, h3⟩)
    · exact Or.inl h
    · exact Or.inr ⟨(n, v), ⟨h1, h2⟩, h3⟩

theorem stepReach_nil (defs : List (String × Value)) : stepReach defs [] = [] := by
  simp [stepReach]

theorem closure_nil (defs : List (String × Value)) : ∀ k, closure defs k [] = []
  | 0 => rfl
  | k + 1 => by simp [closure, stepReach_nil, closure_nil defs k]

theorem subset_closure (defs : List (String × Value)) :
    ∀ (k : Nat) (ns : List String), ∀ n ∈ ns, n ∈ closure defs k ns
  | 0, _, n, h => h
  | k + 1, ns, n, h => by
      simp only [closure]
      exact subset_closure defs k _ n ((mem_stepReach defs ns n).mpr (Or.inl h))

theorem stepReach_mono (defs : List (String × Value)) (ns ns' : List String)
    (h : ∀ n ∈ ns, n ∈ ns') : ∀ n ∈ stepReach defs ns, n ∈ stepReach defs ns' := by
  intro r hr
  rw [mem_stepReach] at hr ⊢
  rcases hr with hr | ⟨n, v, h1, h2, h3⟩
  · exact Or.inl (h r hr)
  · exact Or.inr ⟨n, v, h1, h n h2, h3⟩

theorem closure_mono (defs : List (String × Value)) :
    ∀ (k : Nat) (ns ns' : List String), (∀ n ∈ ns, n ∈ ns') →
      ∀ n ∈ closure defs k ns, n ∈ closure defs k ns'
  | 0, _, _, h => h
  | k + 1, ns, ns', h => by
      simp only [closure]
      exact closure_mono defs k _ _ (stepReach_mono defs ns ns' h)

/-- number of definitions whose name is not (yet) in `ns` -/
def missing (defs : List (String × Value)) (ns : List String) : Nat :=
  (defs.filter (fun d => !ns.contains d.1)).length

theorem missing_le_length (defs : List (String × Value)) (ns : List String) :
    missing defs ns ≤ defs.length := List.length_filter_le _ _

theorem missing_cons (d : String × Value) (ds : List (String × Value)) (ns : List String) :
    missing (d :: ds) ns = (if d.1 ∈ ns then 0 else 1) + missing ds ns := by
  unfold missing
  by_cases h : d.1 ∈ ns
  · simp [h]
  · simp [h]; omega

theorem missing_anti (defs : List (String × Value)) (ns ns' : List String)
    (h : ∀ n ∈ ns, n ∈ ns') :
    missing defs ns' ≤ missing defs ns ∧
      (missing defs ns' = missing defs ns → ∀ d ∈ defs, d.1 ∈ ns' → d.1 ∈ ns) := by
  induction defs with
  | nil => simp [missing]
  | cons d ds ih =>
    obtain ⟨ih1, ih2⟩ := ih
    rw [missing_cons, missing_cons]
    by_cases h1 : d.1 ∈ ns
    · have h2 : d.1 ∈ ns' := h _ h1
      simp only [h1, h2, if_true]
      refine ⟨by omega, fun he x hx => ?_⟩
      rcases List.mem_cons.mp hx with rfl | hx
      · exact fun _ => h1
      · exact ih2 (by omega) x hx
    · by_cases h2 : d.1 ∈ ns'
      · simp only [h1, h2, if_true, if_false]
        refine ⟨by omega, fun he => by omega⟩
      · simp only [h1, h2, if_false]
        refine ⟨by omega, fun he x hx => ?_⟩
        rcases List.mem_cons.mp hx with rfl | hx
        · exact fun hh => absurd hh h2
        · exact ih2 (by omega) x hx

theorem Closed.stepReach {defs : List (String × Value)} {ns : List String} (h : Closed defs ns) :
    ∀ n, n ∈ stepReach defs ns ↔ n ∈ ns := by
  intro r
  rw [mem_stepReach]
  constructor
  · rintro (hr | ⟨n, v, h1, h2, h3⟩)
    · exact hr
    · exact h n h2 v h1 r h3
  · exact Or.inl

theorem Closed.congr {defs : List (String × Value)} {ns ns' : List String} (h : Closed defs ns)
    (he : ∀ n, n ∈ ns' ↔ n ∈ ns) : Closed defs ns' := by
  intro n hn v hv r hr
  exact (he r).mpr (h n ((he n).mp hn) v hv r hr)

theorem closure_closed_aux (defs : List (String × Value)) :
    ∀ (k : Nat) (ns : List String), (missing defs ns < k ∨ Closed defs ns) →
      Closed defs (closure defs k ns)
  | 0, ns, h => by
      rcases h with h | h
      · omega
      · exact h
  | k + 1, ns, h => by
      simp only [closure]
      apply closure_closed_aux defs k
      rcases h with h | h
      · have hsub : ∀ n ∈ ns, n ∈ stepReach defs ns :=
          fun n hn => (mem_stepReach defs ns n).mpr (Or.inl hn)
        obtain ⟨h1, h2⟩ := missing_anti defs ns (stepReach defs ns) hsub
        by_cases he : missing defs (stepReach defs ns) = missing defs ns
        · right
          intro n hn v hv r hr
          have : n ∈ ns := h2 he (n, v) hv hn
          exact (mem_stepReach defs ns r).mpr (Or.inr ⟨n, v, hv, this, hr⟩)
        · left; omega
      · right
        exact h.congr h.stepReach

/-- the names reachable from `ns` (what `VarOK` quantifies over) -/
abbrev reach (defs : List (String × Value)) (ns : List String) : List String :=
  closure defs defs.length ns

/-- **the closure used by `VarOK` is a fix-point**: `defs.length` rounds suffice. -/
theorem reach_closed (defs : List (String × Value)) (ns : List String) :
    Closed defs (reach defs ns) := by
  apply closure_closed_aux
  by_cases h : missing defs ns < defs.length
  · exact Or.inl h
  · right
    have hle := missing_le_length defs ns
    obtain ⟨_, h2⟩ := missing_anti defs [] ns (by simp)
    have h0 : missing defs [] = defs.length := by simp [missing]
    intro n hn v hv
    have := h2 (by omega) (n, v) hv hn
    simp at this

/-! ### frames built by a block -/

/-- what an item does to the current frame -/
def fstep : Frame → Item → Frame
  | f, .vdef n v => f.set n v
  | f, _ => f

/-- what an item does to the scope it is evaluated in (both passes) -/
def stepScope : Scope → Item → Scope
  | sc, .vdef n v => setTop sc n v
  | sc, _ => sc

theorem blockDefsAux_cons (f : Frame) (i : Item) (is : List Item) :
    blockDefsAux f (i :: is) = blockDefsAux (fstep f i) is := by
  cases i <;> rfl

theorem stepScope_cons (f : Frame) (sc : Scope) (i : Item) :
    stepScope (f :: sc) i = fstep f i :: sc := by
  cases i <;> rfl

theorem passG_fst (gsc : Scope) (i : Item) : (passG gsc i).1 = stepScope gsc i := by
  cases i <;> simp [passG, stepScope]

theorem passGList_cons (gsc : Scope) (i : Item) (is : List Item) :
    passGList gsc (i :: is) =
      ((passGList (passG gsc i).1 is).1, (passG gsc i).2 :: (passGList (passG gsc i).1 is).2) := by
  simp [passGList]

theorem passGList_fst (f : Frame) (sc : Scope) :
    ∀ is : List Item, (passGList (f :: sc) is).1 = blockDefsAux f is :: sc := by
  intro is
  induction is generalizing f with
  | nil => simp [passGList, blockDefsAux]
  | cons i is ih =>
    rw [passGList_cons, passG_fst, stepScope_cons, blockDefsAux_cons]
    exact ih _

theorem blockDefsAux_get_of_not_defined (n : String) :
    ∀ (is : List Item) (f : Frame), n ∉ definedNames is → (blockDefsAux f is).get n = f.get n := by
  intro is
  induction is with
  | nil => intro f _; rfl
  | cons i is ih =>
    intro f h
    cases i with
    | decl p v => exact ih f (by simpa [definedNames] using h)
    | rule s b => exact ih f (by simpa [definedNames] using h)
    | vdef m w =>
      simp only [definedNames, List.mem_cons, not_or] at h
      simp only [blockDefsAux]
      rw [ih _ h.2, Frame.get_set_ne _ h.1]

theorem blockDefsAux_get_some (n : String) (v : Value) :
    ∀ (is : List Item) (f : Frame), (blockDefsAux f is).get n = some v →
      f.get n = some v ∨ (n, v) ∈ allDefsList is := by
  intro is
  induction is with
  | nil => intro f h; exact Or.inl h
  | cons i is ih =>
    intro f h
    cases i with
    | decl p w =>
      rcases ih f h with h | h
      · exact Or.inl h
      · exact Or.inr (by simp [allDefsList, h])
    | rule s b =>
      rcases ih f h with h | h
      · exact Or.inl h
      · exact Or.inr (by simp [allDefsList, h])
    | vdef m w =>
      simp only [blockDefsAux] at h
      rcases ih _ h with h | h
      · by_cases hm : n = m
        · subst hm
          rw [Frame.get_set_self] at h
          cases h
          exact Or.inr (by simp [allDefsList, allDefs])
        · rw [Frame.get_set_ne _ hm] at h
          exact Or.inl h
      · exact Or.inr (by simp [allDefsList, h])

theorem definedNames_append (a b : List Item) :
    definedNames (a ++ b) = definedNames a ++ definedNames b := by
  induction a with
  | nil => rfl
  | cons i a ih => cases i <;> simp [definedNames, ih]

/-! ### the side condition, unfolded -/

theorem blockOK_cons (defs : List (String × Value)) (i : Item) (rest : List Item)
    (h : blockOKAux defs (i :: rest) = true) :
    (∀ n ∈ reach defs (usesOf i), n ∉ definedNames rest) ∧ blockOKAux defs rest = true := by
  simp only [blockOKAux, Bool.and_eq_true] at h
  refine ⟨?_, h.2⟩
  cases i with
  | vdef m w => simp [reach, usesOf, closure_nil]
  | decl p v =>
    intro n hn
    have := List.all_eq_true.mp h.1 n hn
    simpa using this
  | rule s b =>
    intro n hn
    have := List.all_eq_true.mp h.1 n hn
    simpa using this

theorem topOK_cons (defs : List (String × Value)) (before : List Item) (i : Item) (rest : List Item)
    (h : topOKAux defs before (i :: rest) = true) :
    (∀ n ∈ reach defs (usesOf i), n ∈ definedNames before → n ∉ definedNames rest) ∧
      topOKAux defs (before ++ [i]) rest = true := by
  simp only [topOKAux, Bool.and_eq_true] at h
  refine ⟨?_, h.2⟩
  cases i with
  | vdef m w => simp [reach, usesOf, closure_nil]
  | decl p v =>
    intro n hn
    have := List.all_eq_true.mp h.1 n hn
    intro h1 h2
    simp [h1, h2] at this
  | rule s b =>
    intro n hn
    have := List.all_eq_true.mp h.1 n hn
    intro h1 h2
    simp [h1, h2] at this

/-! ### relations between the model's scopes and the lexical environment -/

/-- every binding of `gsc` for a name of `S` is a binding of `env` (pass G sees a part of the
    hoisted environment) -/
def Sub (S : List String) (gsc env : Scope) : Prop :=
  ∀ n ∈ S, ∀ v, lookup gsc n = some v → lookup env n = some v

/-- `esc` and `env` agree on the names of `S` -/
def Agree (S : List String) (esc env : Scope) : Prop :=
  ∀ n ∈ S, lookup esc n = lookup env n

/-- every binding of the environment is a definition of the program -/
def ValIn (defs : List (String × Value)) (env : Scope) : Prop :=
  ∀ n v, lookup env n = some v → (n, v) ∈ defs

theorem Sub.mono {S S' : List String} {gsc env : Scope} (h : Sub S gsc env)
    (hs : ∀ n ∈ S', n ∈ S) : Sub S' gsc env := fun n hn => h n (hs n hn)

theorem Agree.mono {S S' : List String} {esc env : Scope} (h : Agree S esc env)
    (hs : ∀ n ∈ S', n ∈ S) : Agree S' esc env := fun n hn => h n (hs n hn)

theorem Sub.push {S : List String} {gsc env : Scope} (h : Sub S gsc env) (f F : Frame)
    (hf : ∀ n ∈ S, F.get n = f.get n) : Sub S (f :: gsc) (F :: env) := by
  intro n hn v
  simp only [lookup, hf n hn]
  cases f.get n with
  | some w => exact id
  | none => exact h n hn v

theorem Agree.push {S : List String} {esc env : Scope} (h : Agree S esc env) (f F : Frame)
    (hf : ∀ n ∈ S, F.get n = f.get n) : Agree S (f :: esc) (F :: env) := by
  intro n hn
  simp only [lookup, hf n hn]
  cases f.get n with
  | some w => rfl
  | none => exact h n hn

theorem ValIn.push {defs : List (String × Value)} {env : Scope} (h : ValIn defs env) (F : Frame)
    (hF : ∀ n v, F.get n = some v → (n, v) ∈ defs) : ValIn defs (F :: env) := by
  intro n v
  simp only [lookup]
  cases hg : F.get n with
  | some w => intro hw; cases hw; exact hF n _ hg
  | none => exact h n v

/-! ### the two passes against the hoisted environment -/

theorem passG_rule (gsc : Scope) (sel : List STok) (body : List Item) :
    (passG gsc (.rule sel body)).2 =
      .rule sel (match resolveSel ([] :: gsc) sel with | .ok s => some s | .error _ => none)
        (passGList ([] :: gsc) body).2 := by
  simp only [passG]
  rfl

/-- the name of a rule in pass E: the grammar-time result if there is one, else resolved now -/
def ruleName (es : Scope) (sel : List STok) : Option (List String) → Except Err (List String)
  | some s => .ok s
  | none => resolveSel ([] :: es) sel

theorem passEItem_rule (fuel : Nat) (es : Scope) (path : List (List String)) (sel : List STok)
    (res : Option (List String)) (body : List GItem) :
    passEItem fuel es path (.rule sel res body) =
      (ruleName es sel res >>= fun name =>
        (passEList fuel ([] :: es) (path ++ [name]) body) >>= fun r =>
          pure (es, [], (if r.2.1.isEmpty then [] else [⟨path ++ [name], r.2.1⟩]) ++ r.2.2)) := by
  simp only [passEItem]
  cases res <;> rfl

theorem specItem_rule (fuel : Nat) (env : Scope) (path : List (List String)) (sel : List STok)
    (body : List Item) :
    specItem fuel env path (.rule sel body) =
      (resolveSel env sel >>= fun name =>
        (specList fuel (blockDefsAux [] body :: env) (path ++ [name]) body) >>= fun r =>
          pure ([], (if r.1.isEmpty then [] else [⟨path ++ [name], r.1⟩]) ++ r.2)) := by
  simp only [specItem, blockDefs]

theorem passEList_cons (fuel : Nat) (es : Scope) (path : List (List String)) (i : GItem)
    (is : List GItem) :
    passEList fuel es path (i :: is) =
      (passEItem fuel es path i >>= fun r1 =>
        passEList fuel r1.1 path is >>= fun r2 =>
          pure (r2.1, r1.2.1 ++ r2.2.1, r1.2.2 ++ r2.2.2)) := by
  simp only [passEList]

theorem specList_cons (fuel : Nat) (env : Scope) (path : List (List String)) (i : Item)
    (is : List Item) :
    specList fuel env path (i :: is) =
      (specItem fuel env path i >>= fun r1 =>
        specList fuel env path is >>= fun r2 =>
          pure (r1.1 ++ r2.1, r1.2 ++ r2.2)) := by
  simp only [specList]

theorem usesOf_rule_sel (sel : List STok) (body : List Item) :
    ∀ n ∈ interpsOf sel, n ∈ usesOf (.rule sel body) := by
  intro n hn; simp [usesOf, hn]

theorem usesOf_rule_body (sel : List STok) (body : List Item) :
    ∀ n ∈ usesOfList body, n ∈ usesOf (.rule sel body) := by
  intro n hn; simp [usesOf, hn]

theorem usesOfList_head (i : Item) (is : List Item) :
    ∀ n ∈ usesOf i, n ∈ usesOfList (i :: is) := by
  intro n hn; simp [usesOfList, hn]

theorem usesOfList_tail (i : Item) (is : List Item) :
    ∀ n ∈ usesOfList is, n ∈ usesOfList (i :: is) := by
  intro n hn; simp [usesOfList, hn]

theorem reach_mono (defs : List (String × Value)) (ns ns' : List String)
    (h : ∀ n ∈ ns, n ∈ ns') : ∀ n ∈ reach defs ns, n ∈ reach defs ns' :=
  closure_mono defs defs.length ns ns' h

theorem subset_reach (defs : List (String × Value)) (ns : List String) :
    ∀ n ∈ ns, n ∈ reach defs ns := subset_closure defs defs.length ns

theorem fstep_get_reach (defs : List (String × Value)) (f : Frame) (i : Item) (rest : List Item)
    (h : ∀ n ∈ reach defs (usesOf i), n ∉ definedNames rest) :
    ∀ n ∈ reach defs (usesOf i), (blockDefsAux f (i :: rest)).get n = f.get n := by
  intro n hn
  cases i with
  | vdef m w => simp [reach, usesOf, closure_nil] at hn
  | decl p v => exact blockDefsAux_get_of_not_defined n rest f (h n hn)
  | rule s b => exact blockDefsAux_get_of_not_defined n rest f (h n hn)

mutual
theorem model_item (fuel : Nat) (defs : List (String × Value)) :
    ∀ (i : Item) (gsc esc env : Scope) (path : List (List String)),
      blocksOK defs i = true → (∀ d ∈ allDefs i, d ∈ defs) → ValIn defs env →
      Sub (reach defs (usesOf i)) gsc env → Agree (reach defs (usesOf i)) esc env →
      passEItem fuel esc path (passG gsc i).2
        = (specItem fuel env path i).map (fun r => (stepScope esc i, r.1, r.2))
  | .decl p v => by
      intro gsc esc env path _ _ hV _ hA
      simp only [passG, passEItem, specItem, stepScope]
      rw [expand_congr esc env (reach defs (refsOf v)) hA
        (fun n hn w hw => reach_closed defs _ n hn w (hV n w hw)) fuel v (subset_reach defs _)]
      cases expand env fuel v <;> rfl
  | .vdef n v => by intros; rfl
  | .rule sel body => by
      intro gsc esc env path hB hD hV hS hA
      simp only [blocksOK, Bool.and_eq_true] at hB
      rw [passG_rule, passEItem_rule, specItem_rule]
      have hsel : ∀ n ∈ interpsOf sel, n ∈ reach defs (usesOf (.rule sel body)) :=
        fun n hn => subset_reach defs _ n (usesOf_rule_sel sel body n hn)
      -- the reachable names are closed under the bindings of the environment (as in the `.decl` case)
      have hcl : ∀ n ∈ reach defs (usesOf (.rule sel body)), ∀ w, lookup env n = some w →
          ∀ r ∈ refsOf w, r ∈ reach defs (usesOf (.rule sel body)) :=
        fun n hn w hw => reach_closed defs _ n hn w (hV n w hw)
      have hname : ruleName esc sel (match resolveSel ([] :: gsc) sel with
                      | .ok s => some s | .error _ => none) = resolveSel env sel := by
        cases hg : resolveSel ([] :: gsc) sel with
        | ok s =>
          simp only [ruleName]
          exact (resolveSel_sub ([] :: gsc) env _
            (fun n hn v hv => hS n hn v (by rwa [lookup_nil_cons] at hv)) hcl sel s hsel hg).symm
        | error e =>
          simp only [ruleName]
          exact resolveSel_congr ([] :: esc) env _
            (fun n hn => by rw [lookup_nil_cons]; exact hA n hn) hcl sel hsel
      rw [hname]
      cases resolveSel env sel with
      | error e => rfl
      | ok name =>
        have hbody := reach_mono defs _ _ (usesOf_rule_body sel body)
        have := model_list fuel defs body [] gsc esc env (path ++ [name]) hB.1 hB.2
          (fun d hd => hD d (by simpa [allDefs] using hd))
          (hV.push _ (fun n v hg => by
            rcases blockDefsAux_get_some n v body [] hg with h | h
            · simp [Frame.get] at h
            · exact hD _ (by simpa [allDefs] using h)))
          (hS.mono hbody) (hA.mono hbody)
        simp only [bind, Except.bind, this]
        cases specList fuel (blockDefsAux [] body :: env) (path ++ [name]) body <;> rfl
theorem model_list (fuel : Nat) (defs : List (String × Value)) :
    ∀ (is : List Item) (f : Frame) (gs es env : Scope) (path : List (List String)),
      blockOKAux defs is = true → blocksOKList defs is = true →
      (∀ d ∈ allDefsList is, d ∈ defs) → ValIn defs (blockDefsAux f is :: env) →
      Sub (reach defs (usesOfList is)) gs env → Agree (reach defs (usesOfList is)) es env →
      passEList fuel (f :: es) path (passGList (f :: gs) is).2
        = (specList fuel (blockDefsAux f is :: env) path is).map
            (fun r => (blockDefsAux f is :: es, r.1, r.2))
  | [] => by intros; rfl
  | i :: is => by
      intro f gs es env path hB hBs hD hV hS hA
      obtain ⟨hB1, hB2⟩ := blockOK_cons defs i is hB
      simp only [blocksOKList, Bool.and_eq_true] at hBs
      have hget := fstep_get_reach defs f i is hB1
      have hhead := reach_mono defs _ _ (usesOfList_head i is)
      have htail := reach_mono defs _ _ (usesOfList_tail i is)
      have h1 := model_item fuel defs i (f :: gs) (f :: es) (blockDefsAux f (i :: is) :: env) path
        hBs.1 (fun d hd => hD d (by simp [allDefsList, hd])) hV
        ((hS.mono hhead).push f _ hget) ((hA.mono hhead).push f _ hget)
      rw [passGList_cons, passEList_cons, specList_cons, h1, passG_fst, stepScope_cons]
      cases specItem fuel (blockDefsAux f (i :: is) :: env) path i with
      | error e => rfl
      | ok r1 =>
        rw [blockDefsAux_cons] at hV ⊢
        have h2 := model_list fuel defs is (fstep f i) gs es env path hB2 hBs.2
          (fun d hd => hD d (by simp [allDefsList, hd])) hV (hS.mono htail) (hA.mono htail)
        simp only [Except.map, bind, Except.bind, stepScope_cons, h2]
        cases specList fuel (blockDefsAux (fstep f i) is :: env) path is <;> rfl
end



/-- top level: the pass-G frame `gf` holds the definitions before the current unit, the pass-E frame
    `ef` is "last definition overall, overridden by the definitions before the current unit" -/
theorem model_top (fuel : Nat) (defs : List (String × Value)) :
    ∀ (rest before : List Item) (gf ef : Frame) (path : List (List String)),
      topOKAux defs before rest = true → blocksOKList defs rest = true →
      (∀ d ∈ allDefsList rest, d ∈ defs) → ValIn defs [blockDefsAux gf rest] →
      (∀ n v, gf.get n = some v → n ∈ definedNames before) →
      (∀ n, ef.get n = match gf.get n with
                       | some v => some v
                       | none => (blockDefsAux gf rest).get n) →
      passEList fuel [ef] path (passGList [gf] rest).2
        = (specList fuel [blockDefsAux gf rest] path rest).map
            (fun r => ([blockDefsAux ef rest], r.1, r.2)) := by
  intro rest
  induction rest with
  | nil => intros; rfl
  | cons i is ih =>
    intro before gf ef path hT hBs hD hV hG hE
    obtain ⟨hT1, hT2⟩ := topOK_cons defs before i is hT
    simp only [blocksOKList, Bool.and_eq_true] at hBs
    -- a name reachable from unit `i` and bound in the pass-G frame has its final binding there
    have hfin : ∀ n ∈ reach defs (usesOf i), ∀ v, gf.get n = some v →
        (blockDefsAux gf (i :: is)).get n = some v := by
      intro n hn v hv
      have hnd : n ∉ definedNames is := hT1 n hn (hG n v hv)
      cases i with
      | vdef m w => simp [reach, usesOf, closure_nil] at hn
      | decl p x =>
        show (blockDefsAux gf is).get n = some v
        rw [blockDefsAux_get_of_not_defined n is gf hnd, hv]
      | rule s b =>
        show (blockDefsAux gf is).get n = some v
        rw [blockDefsAux_get_of_not_defined n is gf hnd, hv]
    have hS : Sub (reach defs (usesOf i)) [gf] [blockDefsAux gf (i :: is)] := by
      intro n hn v hv
      simp only [lookup] at hv ⊢
      cases hg : gf.get n with
      | none => simp [hg] at hv
      | some w =>
        rw [hg] at hv; cases hv
        rw [hfin n hn _ hg]
    have hA : Agree (reach defs (usesOf i)) [ef] [blockDefsAux gf (i :: is)] := by
      intro n hn
      simp only [lookup]
      rw [hE n]
      cases hg : gf.get n with
      | none => rfl
      | some w => rw [hfin n hn w hg]
    have h1 := model_item fuel defs i [gf] [ef] [blockDefsAux gf (i :: is)] path
      hBs.1 (fun d hd => hD d (by simp [allDefsList, hd])) hV hS hA
    rw [passGList_cons, passEList_cons, specList_cons, h1, passG_fst, stepScope_cons]
    cases specItem fuel [blockDefsAux gf (i :: is)] path i with
    | error e => rfl
    | ok r1 =>
      rw [blockDefsAux_cons] at hV hE ⊢
      rw [blockDefsAux_cons]
      have h2 := ih (before ++ [i]) (fstep gf i) (fstep ef i) path hT2 hBs.2
        (fun d hd => hD d (by simp [allDefsList, hd])) hV
        (by
          intro n v hv
          rw [definedNames_append]
          cases i with
          | decl p x => exact List.mem_append_left _ (hG n v hv)
          | rule s b => exact List.mem_append_left _ (hG n v hv)
          | vdef m w =>
            simp only [fstep] at hv
            by_cases hm : n = m
            · subst hm; simp [definedNames]
            · rw [Frame.get_set_ne _ hm] at hv
              exact List.mem_append_left _ (hG n v hv))
        (by
          intro n
          cases i with
          | decl p x => exact hE n
          | rule s b => exact hE n
          | vdef m w =>
            simp only [fstep] at hE ⊢
            by_cases hm : n = m
            · subst hm; simp [Frame.get_set_self]
            · rw [Frame.get_set_ne _ hm, Frame.get_set_ne _ hm]; exact hE n)
      simp only [Except.map, bind, Except.bind, stepScope_cons, h2]
      cases specList fuel [blockDefsAux (fstep gf i) is] path is <;> rfl

theorem compile_eq_spec (fuel : Nat) (sheet : List Item) (h : VarOK sheet = true) :
    compile fuel sheet = specCompile fuel sheet := by
  simp only [VarOK, Bool.and_eq_true] at h
  obtain ⟨⟨_, hT⟩, hB⟩ := h
  have hG : passGList [[]] sheet = ([blockDefsAux [] sheet], (passGList [[]] sheet).2) := by
    rw [← passGList_fst [] [] sheet]
  have hV : ValIn (allDefsList sheet) [blockDefsAux [] sheet] := by
    intro n v hv
    simp only [lookup] at hv
    cases hg : (blockDefsAux [] sheet).get n with
    | none => simp [hg] at hv
    | some w =>
      rw [hg] at hv; cases hv
      rcases blockDefsAux_get_some n _ sheet [] hg with h | h
      · simp [Frame.get] at h
      · exact h
  have := model_top fuel (allDefsList sheet) sheet [] [] (blockDefsAux [] sheet) [] hT hB
    (fun d hd => hd) hV (fun n v hv => by simp [Frame.get] at hv) (fun n => by simp [Frame.get])
  unfold compile specCompile
  rw [hG]
  simp only [this, blockDefs]
  cases specList fuel [blockDefsAux [] sheet] [] sheet <;> rfl



/-! ### where output declarations come from -/

mutual
/-- the declarations `(property, value)` written anywhere in an item -/
def declsOf : Item → List (String × Value)
  | .decl p v => [(p, v)]
  | .vdef _ _ => []
  | .rule _ body => declsOfList body
def declsOfList : List Item → List (String × Value)
  | [] => []
  | i :: is => declsOf i ++ declsOfList is
end

mutual
def gDecls : GItem → List (String × Value)
  | .decl p v => [(p, v)]
  | .vdef _ _ => []
  | .rule _ _ body => gDeclsList body
def gDeclsList : List GItem → List (String × Value)
  | [] => []
  | i :: is => gDecls i ++ gDeclsList is
end

mutual
theorem gDecls_passG : ∀ (i : Item) (gsc : Scope), gDecls (passG gsc i).2 = declsOf i
  | .decl p v, _ => rfl
  | .vdef n v, _ => rfl
  | .rule sel body, gsc => by
      rw [passG_rule]
      simp only [gDecls, declsOf]
      exact gDeclsList_passGList body _
theorem gDeclsList_passGList : ∀ (is : List Item) (gsc : Scope),
    gDeclsList (passGList gsc is).2 = declsOfList is
  | [], _ => rfl
  | i :: is, gsc => by
      rw [passGList_cons]
      simp only [gDeclsList, declsOfList]
      rw [gDecls_passG i gsc, gDeclsList_passGList is _]
end

/-- an output declaration `d = (property, strings)` is *literal and sourced*: its strings, read as
    literal tokens, are the successful substitution of a source declaration of that property -/
def LitDecl (fuel : Nat) (src : List (String × Value)) (d : String × List String) : Prop :=
  ∃ sc v, (d.1, v) ∈ src ∧ expand sc fuel v = .ok (d.2.map VTok.lit)

mutual
theorem passEItem_lit (fuel : Nat) (src : List (String × Value)) :
    ∀ (g : GItem) (es : Scope) (path : List (List String))
      (r : Scope × List (String × List String) × List OutRule),
      (∀ x ∈ gDecls g, x ∈ src) → passEItem fuel es path g = .ok r →
      (∀ d ∈ r.2.1, LitDecl fuel src d) ∧ ∀ o ∈ r.2.2, ∀ d ∈ o.decls, LitDecl fuel src d
  | .decl p v => by
      intro es path r hsrc h
      simp only [passEItem] at h
      cases he : expand es fuel v with
      | error e => simp [he, bind, Except.bind] at h
      | ok v' =>
        simp only [he, bind, Except.bind, pure, Except.pure] at h
        cases h
        refine ⟨?_, by simp⟩
        intro d hd
        simp only [List.mem_singleton] at hd
        subst hd
        refine ⟨es, v, hsrc _ (by simp [gDecls]), ?_⟩
        rw [he, ← litText_of_noRef v' (expand_noRef es fuel v v' he)]
  | .vdef n v => by
      intro es path r _ h
      simp only [passEItem, pure, Except.pure] at h
      cases h
      simp
  | .rule sel res body => by
      intro es path r hsrc h
      rw [passEItem_rule] at h
      cases hn : ruleName es sel res with
      | error e => simp [hn, bind, Except.bind] at h
      | ok name =>
        simp only [hn, bind, Except.bind] at h
        cases hb : passEList fuel ([] :: es) (path ++ [name]) body with
        | error e => simp [hb] at h
        | ok rb =>
          simp only [hb, pure, Except.pure] at h
          cases h
          obtain ⟨ih1, ih2⟩ := passEList_lit fuel src body _ _ rb
            (fun x hx => hsrc x (by simpa [gDecls] using hx)) hb
          refine ⟨by simp, ?_⟩
          intro o ho
          rcases List.mem_append.mp ho with ho | ho
          · by_cases hemp : rb.2.1.isEmpty = true
            · simp [hemp] at ho
            · simp only [hemp] at ho
              simp only [Bool.false_eq_true, if_false, List.mem_singleton] at ho
              subst ho
              exact ih1
          · exact ih2 o ho
theorem passEList_lit (fuel : Nat) (src : List (String × Value)) :
    ∀ (gs : List GItem) (es : Scope) (path : List (List String))
      (r : Scope × List (String × List String) × List OutRule),
      (∀ x ∈ gDeclsList gs, x ∈ src) → passEList fuel es path gs = .ok r →
      (∀ d ∈ r.2.1, LitDecl fuel src d) ∧ ∀ o ∈ r.2.2, ∀ d ∈ o.decls, LitDecl fuel src d
  | [] => by
      intro es path r _ h
      simp only [passEList, pure, Except.pure] at h
      cases h
      simp
  | g :: gs => by
      intro es path r hsrc h
      rw [passEList_cons] at h
      cases h1 : passEItem fuel es path g with
      | error e => simp [h1, bind, Except.bind] at h
      | ok r1 =>
        simp only [h1, bind, Except.bind] at h
        cases h2 : passEList fuel r1.1 path gs with
        | error e => simp [h2] at h
        | ok r2 =>
          simp only [h2, pure, Except.pure] at h
          cases h
          obtain ⟨a1, a2⟩ := passEItem_lit fuel src g es path r1
            (fun x hx => hsrc x (by simp [gDeclsList, hx])) h1
          obtain ⟨b1, b2⟩ := passEList_lit fuel src gs r1.1 path r2
            (fun x hx => hsrc x (by simp [gDeclsList, hx])) h2
          constructor
          · intro d hd
            rcases List.mem_append.mp hd with hd | hd
            · exact a1 d hd
            · exact b1 d hd
          · intro o ho
            rcases List.mem_append.mp ho with ho | ho
            · exact a2 o ho
            · exact b2 o ho
end

theorem compile_lit (fuel : Nat) (sheet : List Item) (out : List OutRule)
    (h : compile fuel sheet = .ok out) :
    ∀ o ∈ out, ∀ d ∈ o.decls, LitDecl fuel (declsOfList sheet) d := by
  unfold compile at h
  simp only [bind, Except.bind] at h
  cases hp : passEList fuel (passGList [[]] sheet).1 [] (passGList [[]] sheet).2 with
  | error e => simp [hp] at h
  | ok r =>
    simp only [hp, pure, Except.pure] at h
    cases h
    exact (passEList_lit fuel _ _ _ _ r
      (fun x hx => by rwa [gDeclsList_passGList] at hx) hp).2

theorem passEItem_rule_local (fuel : Nat) (es es' : Scope) (path : List (List String))
    (sel : List STok) (res : Option (List String)) (body : List GItem)
    (ds : List (String × List String)) (out : List OutRule)
    (h : passEItem fuel es path (.rule sel res body) = .ok (es', ds, out)) : es' = es ∧ ds = [] := by
  rw [passEItem_rule] at h
  cases hn : ruleName es sel res with
  | error e => simp [hn, bind, Except.bind] at h
  | ok name =>
    simp only [hn, bind, Except.bind] at h
    cases hb : passEList fuel ([] :: es) (path ++ [name]) body with
    | error e => simp [hb] at h
    | ok rb =>
      simp only [hb, pure, Except.pure] at h
      cases h
      exact ⟨rfl, rfl⟩


/-! ### decidable equality of results (for the `decide` examples) -/

instance instDecidableEqExcept {ε α : Type} [DecidableEq ε] [DecidableEq α] :
    DecidableEq (Except ε α)
  | .ok a, .ok b => if h : a = b then isTrue (by rw [h]) else isFalse (fun e => h (Except.ok.inj e))
  | .error a, .error b =>
      if h : a = b then isTrue (by rw [h]) else isFalse (fun e => h (Except.error.inj e))
  | .ok _, .error _ => isFalse (fun e => by cases e)
  | .error _, .ok _ => isFalse (fun e => by cases e)

end Lessm.Vars
