/-
  Lemmas that tie the three front-end models together:

    * the character-level stream `Lessm.Lex0.front` (what the parser gets from TEXT) and the type-level token filter
      `Lessm.Lex.filterFrom` of C12  (`rawUnderF`, `rawUnder`, `filterFromE`, `front_is_filterE_lem`);
    * `front`/`frontEnd` and the validating LR driver of C15 (`tokIds`, `Accepts`, `acceptsB`);
    * brace (parenthesis, string, escape) weights of the regenerated grammar read as token counts (`lookS`, `look_idx`);
    * what an `illegal` result of `lexAll` / `front` means (`endState`, `lexAll_illegal_full`, `front_illegal_full`).

  Property theorems are in `Lessm/Props/C15Text.lean`.
-/
import Lessm.Lemmas.Lex0Lemmas
import Lessm.Lemmas.CfgLemmas
import Lessm.Model.Lex
import Lessm.Gen.Grammar

/-! ## the type-level filter with the escape exception -/
namespace Lessm.Lex

/-- `filterFrom` on flagged types: the flag of a token says "the lexer is in an escape state right after it"; a `}`
    with the flag set gets no `;` injected (lexer.py: `self.lexer.lexstate not in ('escapequotes', 'escapeapostrophe')`).
    With all flags `false` this is `filterFrom`. -/
def filterFromE (sig : List Ty) : Option Ty → List (Ty × Bool) → List Ty
  | _, [] => []
  | last, (t, e) :: ts =>
      if t == tWs && (match last with | none => true | some l => !sig.contains l) then
        filterFromE sig last ts
      else if t == tBclose && (match last with
            | none => false
            | some l => l != tBopen && l != tBclose && l != tSemi) && !e then
        tSemi :: tBclose :: filterFromE sig (some tSemi) ts
      else
        t :: filterFromE sig (some t) ts

/-- if no `}` carries the flag, the flags can be forgotten -/
theorem filterFromE_eq_filterFrom (sig : List Ty) (last : Option Ty) (l : List (Ty × Bool))
    (h : ∀ p ∈ l, p.1 = tBclose → p.2 = false) :
    filterFromE sig last l = filterFrom sig last (l.map (·.1)) := by
  induction l generalizing last with
  | nil => rfl
  | cons p l ih =>
    obtain ⟨t, e⟩ := p
    have hl : ∀ p ∈ l, p.1 = tBclose → p.2 = false := fun p hp => h p (List.mem_cons_of_mem _ hp)
    have hc : ∀ M : Bool, ((t == tBclose && M) && !e) = (t == tBclose && M) := by
      intro M
      by_cases ht : t = tBclose
      · have : e = false := h (t, e) (by simp) ht
        simp [this]
      · simp [ht]
    simp only [filterFromE, filterFrom, List.map_cons, hc, ih _ hl]
    rfl

/-- all flags `false`: exactly `filterFrom` -/
theorem filterFromE_false (sig : List Ty) (last : Option Ty) (ts : List Ty) :
    filterFromE sig last (ts.map (fun t => (t, false))) = filterFrom sig last ts := by
  rw [filterFromE_eq_filterFrom]
  · simp [Function.comp_def]
  · intro p hp _
    obtain ⟨t, -, rfl⟩ := List.mem_map.mp hp
    rfl

end Lessm.Lex

namespace Lessm.Lex0
open Lessm.Rx

/-! ## F1  the raw stream `front` meets -/

/-- the lexer is in one of the two escape states -/
def escFlag (st : LState) : Bool := st.cur == "escapequotes" || st.cur == "escapeapostrophe"

/-- The emitted raw tokens that `front` meets, in order, lexed under `front`'s own state feedback: the same recursion as
    `front`, but every emitted token of `step` is recorded — also the blanks `front` drops; comments (not emitted) and
    the injected `;` are not in it — with the flag "the lexer state right after the token is an escape state". -/
def rawUnderF (tb : Tables) (sig : List String) (last : Option String) (st : LState) (s : List Char) :
    List (Tok × Bool) :=
  match hs : s with
  | [] => []
  | _ :: _ =>
    match step tb st s with
    | .tok t emit st' rest =>
        if hl : rest.length < s.length then
          if !emit then rawUnderF tb sig last st' rest
          else if wsDrop sig last t then (t, escFlag st') :: rawUnderF tb sig last st' rest
          else if needSemi last t st' then
            (t, escFlag st') :: rawUnderF tb sig (some "t_semicolon") { st' with inProp := false } rest
          else (t, escFlag st') :: rawUnderF tb sig (some t.type) st' rest
        else []
    | .illegal _ _ => []
    | .stuck => []
termination_by s.length
decreasing_by all_goals (subst hs; simpa using hl)

/-- the tokens alone -/
def rawUnder (tb : Tables) (sig : List String) (last : Option String) (st : LState) (s : List Char) : List Tok :=
  (rawUnderF tb sig last st s).map (·.1)

theorem rawUnderF_nil (tb : Tables) (sig : List String) (last : Option String) (st : LState) :
    rawUnderF tb sig last st [] = [] := by
  rw [rawUnderF]

theorem rawUnderF_tok {tb : Tables} {sig : List String} {last : Option String} {st st' : LState} {s rest : List Char}
    {t : Tok} {emit : Bool} (h : step tb st s = .tok t emit st' rest) :
    rawUnderF tb sig last st s =
      if !emit then rawUnderF tb sig last st' rest
      else if wsDrop sig last t then (t, escFlag st') :: rawUnderF tb sig last st' rest
      else if needSemi last t st' then
        (t, escFlag st') :: rawUnderF tb sig (some "t_semicolon") { st' with inProp := false } rest
      else (t, escFlag st') :: rawUnderF tb sig (some t.type) st' rest := by
  have hl := step_rest_lt h
  cases s with
  | nil => simp at hl
  | cons a s' =>
    rw [rawUnderF.eq_def]
    simp only [h, hl, dite_true]

theorem rawUnderF_illegal {tb : Tables} {sig : List String} {last : Option String} {st : LState} {s : List Char}
    {c : Char} {l : Nat} (h : step tb st s = .illegal c l) : rawUnderF tb sig last st s = [] := by
  cases s with
  | nil => rw [rawUnderF]
  | cons a s' =>
    rw [rawUnderF.eq_def]
    simp only [h]

theorem rawUnderF_stuck {tb : Tables} {sig : List String} {last : Option String} {st : LState} {s : List Char}
    (h : step tb st s = .stuck) : rawUnderF tb sig last st s = [] := by
  cases s with
  | nil => rw [rawUnderF]
  | cons a s' =>
    rw [rawUnderF.eq_def]
    simp only [h]

/-- one step of `filterFromE` on a token of the loop, in the vocabulary of `front_tok` -/
theorem filterFromE_tok (sig : List String) (last : Option String) (t : Tok) (st' : LState)
    (ts : List (String × Bool)) :
    Lex.filterFromE sig last ((t.type, escFlag st') :: ts) =
      if wsDrop sig last t then Lex.filterFromE sig last ts
      else if needSemi last t st' then "t_semicolon" :: "t_bclose" :: Lex.filterFromE sig (some "t_semicolon") ts
      else t.type :: Lex.filterFromE sig (some t.type) ts := by
  rfl

/-- the types `front` hands out are the generalised filter applied to the (flagged) types of the raw stream it meets -/
theorem front_is_filterE_lem (tb : Tables) (sig : List String) (last : Option String) (st : LState) (s : List Char) :
    (front tb sig last st s).toks.map (·.type)
      = Lex.filterFromE sig last ((rawUnderF tb sig last st s).map (fun p => (p.1.type, p.2))) := by
  induction last, st, s using front.induct tb sig with
  | case1 last st => rw [front_nil, rawUnderF_nil]; rfl
  | case2 last st head tail t emit st' rest hc hstep hl ih =>
    rw [front_tok hstep, rawUnderF_tok hstep, if_pos hc, if_pos hc]
    exact ih
  | case3 last st head tail t emit st' rest hc1 hc2 hstep hl ih =>
    have hc2 : wsDrop sig last t = true := hc2
    rw [front_tok hstep, rawUnderF_tok hstep, if_neg hc1, if_neg hc1, if_pos hc2, if_pos hc2, List.map_cons,
      filterFromE_tok, if_pos hc2]
    exact ih
  | case4 last st head tail t emit st' rest hc1 hc2 hc3 hstep hl ih =>
    have hc2 : ¬ wsDrop sig last t = true := hc2
    have hc3 : needSemi last t st' = true := hc3
    rw [front_tok hstep, rawUnderF_tok hstep, if_neg hc1, if_neg hc1, if_neg hc2, if_neg hc2, if_pos hc3, if_pos hc3,
      List.map_cons, filterFromE_tok, if_neg hc2, if_pos hc3]
    have hty : t.type = "t_bclose" := by
      simp only [needSemi, Bool.and_eq_true, beq_iff_eq] at hc3
      exact hc3.1.1
    simp only [FRes.toks_prepend, List.cons_append, List.nil_append, List.map_cons, hty]
    rw [ih]
  | case5 last st head tail t emit st' rest hc1 hc2 hc3 hstep hl ih =>
    have hc2 : ¬ wsDrop sig last t = true := hc2
    have hc3 : ¬ needSemi last t st' = true := hc3
    rw [front_tok hstep, rawUnderF_tok hstep, if_neg hc1, if_neg hc1, if_neg hc2, if_neg hc2, if_neg hc3, if_neg hc3,
      List.map_cons, filterFromE_tok, if_neg hc2, if_neg hc3]
    simp only [FRes.toks_prepend, List.cons_append, List.nil_append, List.map_cons]
    rw [ih]
  | case6 last st head tail t emit st' rest hstep hl => exact absurd (step_rest_lt hstep) hl
  | case7 last st head tail c l hstep =>
    rw [front_illegal (by simp) hstep, rawUnderF_illegal hstep]
    rfl
  | case8 last st head tail hstep =>
    rw [front_stuck (by simp) hstep, rawUnderF_stuck hstep]
    rfl

/-- every token of `rawUnder` is a token of the loop -/
theorem rawUnderF_fromStep (tb : Tables) (sig : List String) (last : Option String) (st : LState) (s : List Char) :
    ∀ p ∈ rawUnderF tb sig last st s, FromStep tb p.1 := by
  induction last, st, s using front.induct tb sig with
  | case1 last st => rw [rawUnderF_nil]; simp
  | case2 last st head tail t emit st' rest hc hstep hl ih =>
    rw [rawUnderF_tok hstep, if_pos hc]
    exact ih
  | case3 last st head tail t emit st' rest hc1 hc2 hstep hl ih =>
    have hc2 : wsDrop sig last t = true := hc2
    rw [rawUnderF_tok hstep, if_neg hc1, if_pos hc2]
    intro p hp
    rcases List.mem_cons.mp hp with rfl | hp
    · exact ⟨_, _, _, _, _, hstep⟩
    · exact ih p hp
  | case4 last st head tail t emit st' rest hc1 hc2 hc3 hstep hl ih =>
    have hc2 : ¬ wsDrop sig last t = true := hc2
    have hc3 : needSemi last t st' = true := hc3
    rw [rawUnderF_tok hstep, if_neg hc1, if_neg hc2, if_pos hc3]
    intro p hp
    rcases List.mem_cons.mp hp with rfl | hp
    · exact ⟨_, _, _, _, _, hstep⟩
    · exact ih p hp
  | case5 last st head tail t emit st' rest hc1 hc2 hc3 hstep hl ih =>
    have hc2 : ¬ wsDrop sig last t = true := hc2
    have hc3 : ¬ needSemi last t st' = true := hc3
    rw [rawUnderF_tok hstep, if_neg hc1, if_neg hc2, if_neg hc3]
    intro p hp
    rcases List.mem_cons.mp hp with rfl | hp
    · exact ⟨_, _, _, _, _, hstep⟩
    · exact ih p hp
  | case6 last st head tail t emit st' rest hstep hl => exact absurd (step_rest_lt hstep) hl
  | case7 last st head tail c l hstep => rw [rawUnderF_illegal hstep]; simp
  | case8 last st head tail hstep => rw [rawUnderF_stuck hstep]; simp

/-! ## F2  text, tokens, driver -/

/-- numbers of the token types in the regenerated grammar (a type that is no terminal gets `terminals.length`) -/
def tokIds (ts : List Tok) : List Nat := ts.map (fun t => Lessm.Gen.terminals.idxOf t.type)

/-- the text is lexed to the end, is not empty of tokens (lesscpy does not call the parser's tables on nothing), and
    the validating driver accepts its token stream with the given tables -/
def Accepts (tb : Tables) (sig : List String) (action goto : Lessm.LR.Table) (text : String) : Prop :=
  ∃ ts, frontEnd tb sig text = .ok ts ∧ ts ≠ [] ∧
    Lessm.LR.recognise Lessm.Gen.prods action goto 0 Lessm.Gen.startNt (tokIds ts) = .accept

def FRes.isOk : FRes → Bool
  | .ok _ => true
  | _ => false

theorem FRes.eq_ok_of_isOk {r : FRes} (h : r.isOk = true) : r = .ok r.toks := by
  cases r <;> first | rfl | cases h

theorem FRes.toks_of_eq_ok {r : FRes} {ts : List Tok} (h : r = .ok ts) : r.toks = ts := by
  subst h; rfl

/-- executable form of `Accepts` -/
def acceptsB (tb : Tables) (sig : List String) (action goto : Lessm.LR.Table) (text : String) : Bool :=
  (frontEnd tb sig text).isOk && !(frontEnd tb sig text).toks.isEmpty &&
    (Lessm.LR.recognise Lessm.Gen.prods action goto 0 Lessm.Gen.startNt (tokIds (frontEnd tb sig text).toks) == .accept)

theorem accepts_iff (tb : Tables) (sig : List String) (action goto : Lessm.LR.Table) (text : String) :
    Accepts tb sig action goto text ↔ acceptsB tb sig action goto text = true := by
  constructor
  · rintro ⟨ts, h1, h2, h3⟩
    have ht := FRes.toks_of_eq_ok h1
    simp only [acceptsB, Bool.and_eq_true, beq_iff_eq, Bool.not_eq_true', ht]
    refine ⟨⟨by rw [h1]; rfl, ?_⟩, h3⟩
    cases ts with
    | nil => exact absurd rfl h2
    | cons a r => rfl
  · intro h
    simp only [acceptsB, Bool.and_eq_true, beq_iff_eq, Bool.not_eq_true'] at h
    obtain ⟨⟨h1, h2⟩, h3⟩ := h
    refine ⟨_, FRes.eq_ok_of_isOk h1, ?_, h3⟩
    intro e
    rw [e] at h2
    cases h2

instance (tb : Tables) (sig : List String) (action goto : Lessm.LR.Table) (text : String) :
    Decidable (Accepts tb sig action goto text) :=
  decidable_of_iff _ (accepts_iff tb sig action goto text).symm

/-! ## F3  weights as counts -/

/-- a weight table keyed by terminal names -/
def lookS (l : List (String × Int)) (k : String) : Int :=
  match l.find? (·.1 == k) with | some p => p.2 | none => 0

theorem idxOf_inj_of_mem {l : List String} {a b : String} (hb : b ∈ l) (h : l.idxOf a = l.idxOf b) : a = b := by
  induction l with
  | nil => simp at hb
  | cons x l ih =>
    simp only [List.idxOf_cons, Bool.cond_eq_ite, beq_iff_eq] at h
    by_cases hxa : x = a
    · by_cases hxb : x = b
      · rw [← hxa, ← hxb]
      · rw [if_pos hxa, if_neg hxb] at h
        omega
    · by_cases hxb : x = b
      · rw [if_neg hxa, if_pos hxb] at h
        omega
      · rw [if_neg hxa, if_neg hxb] at h
        have hb' : b ∈ l := by
          rcases List.mem_cons.mp hb with e | e
          · exact absurd e.symm hxb
          · exact e
        exact ih hb' (by omega)

theorem look_cons (p : Nat × Int) (l : List (Nat × Int)) (k : Nat) :
    Lessm.Cfg.look (p :: l) k = if p.1 = k then p.2 else Lessm.Cfg.look l k := by
  unfold Lessm.Cfg.look
  by_cases h : p.1 = k
  · simp [h]
  · simp [h]

theorem lookS_cons (p : String × Int) (l : List (String × Int)) (k : String) :
    lookS (p :: l) k = if p.1 = k then p.2 else lookS l k := by
  unfold lookS
  by_cases h : p.1 = k
  · simp [h]
  · simp [h]

/-- a weight table keyed by the numbers of member names, looked up at the number of any name, is the table keyed by
    the names (a non-member gets number `length`, which no member has) -/
theorem look_idx (terms : List String) (l : List (String × Int)) (hl : ∀ p ∈ l, p.1 ∈ terms) (ty : String) :
    Lessm.Cfg.look (l.map (fun p => (terms.idxOf p.1, p.2))) (terms.idxOf ty) = lookS l ty := by
  induction l with
  | nil => rfl
  | cons p l ih =>
    have ih' := ih (fun q hq => hl q (List.mem_cons_of_mem _ hq))
    rw [List.map_cons, look_cons, lookS_cons, ih']
    by_cases hp : p.1 = ty
    · rw [if_pos hp, if_pos (by rw [hp])]
    · have hne : ¬ terms.idxOf p.1 = terms.idxOf ty := fun e =>
        hp (idxOf_inj_of_mem (hl p (by simp)) e.symm).symm
      rw [if_neg hp, if_neg hne]

theorem sumT_tokIds (l : List (String × Int)) (hl : ∀ p ∈ l, p.1 ∈ Lessm.Gen.terminals) (ts : List Tok) :
    Lessm.Cfg.sumT (Lessm.Cfg.look (l.map (fun p => (Lessm.Gen.terminals.idxOf p.1, p.2)))) (tokIds ts)
      = (ts.map (fun t => lookS l t.type)).sum := by
  induction ts with
  | nil => rfl
  | cons t ts ih =>
    simp only [tokIds, List.map_cons, Lessm.Cfg.sumT_cons, List.sum_cons] at ih ⊢
    rw [look_idx _ _ hl]
    unfold Lessm.Cfg.sumT at ih ⊢
    rw [ih]

/-- number of tokens of a type -/
def countTy (ty : String) (ts : List Tok) : Nat := ts.countP (fun t => t.type == ty)

theorem countTy_nil (ty : String) : countTy ty [] = 0 := rfl

theorem countTy_cons (ty : String) (t : Tok) (ts : List Tok) :
    countTy ty (t :: ts) = countTy ty ts + (if t.type = ty then 1 else 0) := by
  simp [countTy, List.countP_cons]

theorem tokIds_take (ts : List Tok) (k : Nat) : tokIds (ts.take k) <+: tokIds ts := by
  unfold tokIds
  rw [List.map_take]
  exact List.take_prefix _ _

/-! ## F4  illegal characters -/

theorem firstMatch_none {rs : List Rule} {s : List Char} (h : firstMatch rs s = none) :
    ∀ r ∈ rs, r.re.matchPrefix s = none := by
  induction rs with
  | nil => simp
  | cons a rs ih =>
    simp only [firstMatch] at h
    split at h
    · cases h
    · rename_i hm
      intro r hr
      rcases List.mem_cons.mp hr with rfl | hr
      · exact hm
      · exact ih h r hr

/-- `t_error`: the turn stops at `c`, no rule of the current state (nor of INITIAL) matches there, `c` is no literal -/
theorem step_illegal_full {tb : Tables} {st : LState} {s : List Char} {c : Char} {l : Nat}
    (h : step tb st s = .illegal c l) :
    (∃ rest, s = c :: rest) ∧ firstMatch (rulesOf tb st.cur) s = none ∧ tb.literals.contains c = false ∧
      l = st.lineno := by
  unfold step at h
  split at h
  · split at h <;> cases h
  · rename_i hf
    split at h
    · split at h
      · cases h
      · rename_i hc
        injection h with h1 h2
        subst h1; subst h2
        exact ⟨⟨_, rfl⟩, hf, by simpa using hc, rfl⟩
    · cases h

/-- the lexer state behind a raw stream that started in `st` -/
def endState : LState → List Item → LState
  | st, [] => st
  | _, it :: r => endState it.2.2 r

theorem endState_eq_getLast (st : LState) (items : List Item) :
    endState st items = (items.getLast?.map (·.2.2)).getD st := by
  induction items generalizing st with
  | nil => rfl
  | cons it r ih =>
    rw [endState, ih]
    cases r with
    | nil => rfl
    | cons b r' =>
      rw [List.getLast?_cons_cons]
      cases hx : (b :: r').getLast? with
      | none => simp at hx
      | some x => rfl

theorem lexAll_illegal_full (tb : Tables) (st : LState) (s : List Char) (items : List Item) (c : Char) (l : Nat)
    (h : lexAll tb st s = .illegal items c l) :
    ∃ rest, s = charsOf items ++ c :: rest ∧
      firstMatch (rulesOf tb (endState st items).cur) (c :: rest) = none ∧
      tb.literals.contains c = false ∧ l = (endState st items).lineno := by
  induction st, s using lexAll.induct tb generalizing items with
  | case1 st => simp [lexAll_nil] at h
  | case2 st head tail t emit st' rest hstep hl ih =>
    rw [lexAll_tok hstep] at h
    obtain ⟨items', hi', rfl⟩ := Res.cons_eq_illegal h
    obtain ⟨r, h1, h2, h3, h4⟩ := ih items' hi'
    refine ⟨r, ?_, h2, h3, h4⟩
    simp only [charsOf, List.flatMap_cons, List.append_assoc]
    simp only [charsOf] at h1
    rw [← h1]
    exact (step_split_lem hstep).1
  | case3 st head tail t emit st' rest hstep hl => exact absurd (step_rest_lt hstep) hl
  | case4 st head tail c' l' hstep =>
    rw [lexAll_illegal (by simp) hstep] at h
    injection h with h1 h2 h3
    subst h1; subst h2; subst h3
    obtain ⟨⟨r, hr⟩, hf, hc, hl⟩ := step_illegal_full hstep
    refine ⟨r, by simpa [charsOf] using hr, ?_, hc, hl⟩
    rw [← hr]
    exact hf
  | case5 st head tail hstep =>
    rw [lexAll_stuck (by simp) hstep] at h
    cases h

theorem FRes.prepend_eq_illegal {ts : List Tok} {r : FRes} {x : List Tok} {c : Char} {l : Nat}
    (h : r.prepend ts = .illegal x c l) : ∃ y, r = .illegal y c l ∧ x = ts ++ y := by
  cases r with
  | ok a => simp [FRes.prepend] at h
  | illegal a c' l' =>
    simp only [FRes.prepend, FRes.illegal.injEq] at h
    obtain ⟨h1, h2, h3⟩ := h
    subst h2; subst h3
    exact ⟨a, rfl, h1.symm⟩
  | stuck a => simp [FRes.prepend] at h

theorem FRes.prepend_eq_ok {ts : List Tok} {r : FRes} {x : List Tok}
    (h : r.prepend ts = .ok x) : ∃ y, r = .ok y ∧ x = ts ++ y := by
  cases r with
  | ok a =>
    simp only [FRes.prepend, FRes.ok.injEq] at h
    exact ⟨a, rfl, h.symm⟩
  | illegal a c' l' => simp [FRes.prepend] at h
  | stuck a => simp [FRes.prepend] at h

/-- the same for the stream the parser sees: somewhere in the text, in some lexer state reached there, no rule matches
    at `c` and `c` is no literal; the characters of the tokens handed out so far are a subsequence of what lies before -/
theorem front_illegal_full (tb : Tables) (sig : List String) (last : Option String) (st : LState) (s : List Char)
    (ts : List Tok) (c : Char) (l : Nat) (h : front tb sig last st s = .illegal ts c l) :
    ∃ (pre rest : List Char) (st1 : LState), s = pre ++ c :: rest ∧ (ts.flatMap (fun t => t.lexeme.toList)).Sublist pre ∧
      firstMatch (rulesOf tb st1.cur) (c :: rest) = none ∧ tb.literals.contains c = false ∧ l = st1.lineno := by
  induction last, st, s using front.induct tb sig generalizing ts with
  | case1 last st => simp [front_nil] at h
  | case2 last st head tail t emit st' rest hc hstep hl ih =>
    rw [front_tok hstep, if_pos hc] at h
    obtain ⟨pre, r, st1, h1, h2, h3⟩ := ih ts h
    refine ⟨t.lexeme.toList ++ pre, r, st1, ?_, h2.trans (List.sublist_append_right _ _), h3⟩
    rw [List.append_assoc, ← h1]
    exact (step_split_lem hstep).1
  | case3 last st head tail t emit st' rest hc1 hc2 hstep hl ih =>
    have hc2 : wsDrop sig last t = true := hc2
    rw [front_tok hstep, if_neg hc1, if_pos hc2] at h
    obtain ⟨pre, r, st1, h1, h2, h3⟩ := ih ts h
    refine ⟨t.lexeme.toList ++ pre, r, st1, ?_, h2.trans (List.sublist_append_right _ _), h3⟩
    rw [List.append_assoc, ← h1]
    exact (step_split_lem hstep).1
  | case4 last st head tail t emit st' rest hc1 hc2 hc3 hstep hl ih =>
    have hc2 : ¬ wsDrop sig last t = true := hc2
    have hc3 : needSemi last t st' = true := hc3
    rw [front_tok hstep, if_neg hc1, if_neg hc2, if_pos hc3] at h
    obtain ⟨y, hy, rfl⟩ := FRes.prepend_eq_illegal h
    obtain ⟨pre, r, st1, h1, h2, h3⟩ := ih y hy
    refine ⟨t.lexeme.toList ++ pre, r, st1, ?_, ?_, h3⟩
    · rw [List.append_assoc, ← h1]
      exact (step_split_lem hstep).1
    · have := List.Sublist.append_left h2 t.lexeme.toList
      simpa using this
  | case5 last st head tail t emit st' rest hc1 hc2 hc3 hstep hl ih =>
    have hc2 : ¬ wsDrop sig last t = true := hc2
    have hc3 : ¬ needSemi last t st' = true := hc3
    rw [front_tok hstep, if_neg hc1, if_neg hc2, if_neg hc3] at h
    obtain ⟨y, hy, rfl⟩ := FRes.prepend_eq_illegal h
    obtain ⟨pre, r, st1, h1, h2, h3⟩ := ih y hy
    refine ⟨t.lexeme.toList ++ pre, r, st1, ?_, ?_, h3⟩
    · rw [List.append_assoc, ← h1]
      exact (step_split_lem hstep).1
    · have := List.Sublist.append_left h2 t.lexeme.toList
      simpa using this
  | case6 last st head tail t emit st' rest hstep hl => exact absurd (step_rest_lt hstep) hl
  | case7 last st head tail c' l' hstep =>
    rw [front_illegal (by simp) hstep] at h
    injection h with h1 h2 h3
    subst h1; subst h2; subst h3
    obtain ⟨⟨r, hr⟩, hf, hc, hl⟩ := step_illegal_full hstep
    refine ⟨[], r, st, by simpa using hr, by simp, ?_, hc, hl⟩
    rw [← hr]
    exact hf
  | case8 last st head tail hstep =>
    rw [front_stuck (by simp) hstep] at h
    cases h

end Lessm.Lex0

/-! ## F3  the four regenerated weight tables, keyed by terminal names

  The tables of `Lessm/Gen/Grammar.lean` are keyed by terminal numbers; the `decide +kernel` facts below re-check on every
  regeneration that they are the tables keyed by these names (so that a weight table with further non-zero entries would
  make this file fail, not the theorems silently weaker). -/
namespace Lessm.Lex0
open Lessm.Cfg

def braceNames : List (String × Int) := [("t_bclose", -1), ("t_bopen", 1)]
def parenNames : List (String × Int) := [("less_open_format", 1), ("t_pclose", -1), ("t_popen", 1)]
def istrNames : List (String × Int) := [("t_isclose", -1), ("t_isopen", 1)]
def estrNames : List (String × Int) := [("t_eclose", -1), ("t_eopen", 1)]

def numbered (l : List (String × Int)) : List (Nat × Int) := l.map (fun p => (Lessm.Gen.terminals.idxOf p.1, p.2))

theorem braceTw_names : Lessm.Gen.braceTw = numbered braceNames ∧ ∀ p ∈ braceNames, p.1 ∈ Lessm.Gen.terminals := by
  decide +kernel
theorem parenTw_names : Lessm.Gen.parenTw = numbered parenNames ∧ ∀ p ∈ parenNames, p.1 ∈ Lessm.Gen.terminals := by
  decide +kernel
theorem istrTw_names : Lessm.Gen.istrTw = numbered istrNames ∧ ∀ p ∈ istrNames, p.1 ∈ Lessm.Gen.terminals := by
  decide +kernel
theorem estrTw_names : Lessm.Gen.estrTw = numbered estrNames ∧ ∀ p ∈ estrNames, p.1 ∈ Lessm.Gen.terminals := by
  decide +kernel

theorem lookS_nil (k : String) : lookS [] k = 0 := rfl

/-- a two-entry table `close ↦ -1, open ↦ +1`: the sum over a token list is #open − #close -/
theorem sum_two (cl op : String) (hne : cl ≠ op) (ts : List Tok) :
    (ts.map (fun t => lookS [(cl, -1), (op, 1)] t.type)).sum = (countTy op ts : Int) - (countTy cl ts : Int) := by
  induction ts with
  | nil => rfl
  | cons t ts ih =>
    rw [List.map_cons, List.sum_cons, ih, countTy_cons, countTy_cons, lookS_cons, lookS_cons, lookS_nil]
    by_cases h1 : cl = t.type
    · have h2 : ¬ op = t.type := fun e => hne (h1.trans e.symm)
      have h1' : t.type = cl := h1.symm
      have h2' : ¬ t.type = op := fun e => h2 e.symm
      simp only [if_pos h1, if_pos h1', if_neg h2']
      omega
    · by_cases h2 : op = t.type
      · have h1' : ¬ t.type = cl := fun e => h1 e.symm
        have h2' : t.type = op := h2.symm
        simp only [if_neg h1, if_pos h2, if_neg h1', if_pos h2']
        omega
      · have h1' : ¬ t.type = cl := fun e => h1 e.symm
        have h2' : ¬ t.type = op := fun e => h2 e.symm
        simp only [if_neg h1, if_neg h2, if_neg h1', if_neg h2']
        omega

theorem brace_sum (ts : List Tok) :
    sumT (look Lessm.Gen.braceTw) (tokIds ts) = (countTy "t_bopen" ts : Int) - (countTy "t_bclose" ts : Int) := by
  rw [braceTw_names.1, numbered, sumT_tokIds _ braceTw_names.2]
  exact sum_two _ _ (by decide) ts

theorem istr_sum (ts : List Tok) :
    sumT (look Lessm.Gen.istrTw) (tokIds ts) = (countTy "t_isopen" ts : Int) - (countTy "t_isclose" ts : Int) := by
  rw [istrTw_names.1, numbered, sumT_tokIds _ istrTw_names.2]
  exact sum_two _ _ (by decide) ts

theorem estr_sum (ts : List Tok) :
    sumT (look Lessm.Gen.estrTw) (tokIds ts) = (countTy "t_eopen" ts : Int) - (countTy "t_eclose" ts : Int) := by
  rw [estrTw_names.1, numbered, sumT_tokIds _ estrTw_names.2]
  exact sum_two _ _ (by decide) ts

theorem paren_sum (ts : List Tok) :
    sumT (look Lessm.Gen.parenTw) (tokIds ts)
      = (countTy "less_open_format" ts : Int) + (countTy "t_popen" ts : Int) - (countTy "t_pclose" ts : Int) := by
  rw [parenTw_names.1, numbered, sumT_tokIds _ parenTw_names.2]
  induction ts with
  | nil => rfl
  | cons t ts ih =>
    rw [List.map_cons, List.sum_cons, ih, countTy_cons, countTy_cons, countTy_cons, parenNames, lookS_cons, lookS_cons,
      lookS_cons, lookS_nil]
    by_cases h1 : t.type = "less_open_format"
    · simp [h1]
      omega
    · by_cases h2 : t.type = "t_pclose"
      · simp [h2]
        omega
      · by_cases h3 : t.type = "t_popen"
        · simp [h3]
          omega
        · have h1' : ¬ "less_open_format" = t.type := fun e => h1 e.symm
          have h2' : ¬ "t_pclose" = t.type := fun e => h2 e.symm
          have h3' : ¬ "t_popen" = t.type := fun e => h3 e.symm
          simp only [if_neg h1, if_neg h2, if_neg h3, if_neg h1', if_neg h2', if_neg h3']
          omega

/-- from "total weight zero, no prefix negative" to counts, for a family whose weight sum is `#open − #close` -/
theorem counts_of_balanced {tw : Nat → Int} {opens closes : List Tok → Nat}
    (hsum : ∀ ts, sumT tw (tokIds ts) = (opens ts : Int) - (closes ts : Int)) {ts : List Tok}
    (h : Lessm.LR.balanced tw (tokIds ts) = true) :
    opens ts = closes ts ∧ ∀ k, closes (ts.take k) ≤ opens (ts.take k) := by
  obtain ⟨h0, hp⟩ := (balanced_iff _ _).mp h
  constructor
  · have := hsum ts
    omega
  · intro k
    have := hp _ (tokIds_take ts k)
    rw [hsum] at this
    omega

end Lessm.Lex0
