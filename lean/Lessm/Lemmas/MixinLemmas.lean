/-
  Helper lemmas for C05 (mixins).
-/
import Lessm.Spec.MixinSpec
import Lessm.Lemmas.VarsLemmas

namespace Lessm.Mixin
open Lessm.Vars Lessm.Sel

/-! ### the sheet as table + rules -/

theorem compile_eq_go (gas : Nat) (sheet : List Top) :
    compile gas sheet = compile.go gas (buildTable sheet) sheet := rfl

theorem go_eq_compileRules (gas : Nat) (tbl : Table) :
    ∀ sheet : List Top, compile.go gas tbl sheet = compileRules tbl gas (rulesOf sheet) := by
  intro sheet
  induction sheet with
  | nil => rfl
  | cons t r ih =>
    cases t with
    | mdef n d => simpa [compile.go, rulesOf] using ih
    | rule sel body =>
      simp only [compile.go, rulesOf, compileRules, compileRule, ih]
      cases evalItems tbl gas 0 false [[], []] (identParse none sel) body with
      | error e => rfl
      | ok p =>
        obtain ⟨ds, out⟩ := p
        cases compileRules tbl gas (rulesOf r) with
        | error e => rfl
        | ok rest => rfl

theorem buildTable_mixins_append (a b : List Top) :
    (buildTable (a ++ b)).mixins = (buildTable a).mixins ++ (buildTable b).mixins := by
  induction a with
  | nil => simp [buildTable]
  | cons t r ih => cases t <;> simp [buildTable, ih]

theorem buildTable_blocks_append (a b : List Top) :
    (buildTable (a ++ b)).blocks = (buildTable a).blocks ++ (buildTable b).blocks := by
  induction a with
  | nil => simp [buildTable]
  | cons t r ih => cases t <;> simp [buildTable, ih]

theorem buildTable_blocks_defs (ds : List Top) (h : ∀ t ∈ ds, t.isDef = true) :
    (buildTable ds).blocks = [] := by
  induction ds with
  | nil => rfl
  | cons t r ih =>
    cases t with
    | mdef n d => simpa [buildTable] using ih (fun t ht => h t (List.mem_cons_of_mem _ ht))
    | rule sel body => have := h _ (List.mem_cons_self); simp [Top.isDef] at this

theorem buildTable_mixins_rules (rs : List Top) (h : ∀ t ∈ rs, t.isRule = true) :
    (buildTable rs).mixins = [] := by
  induction rs with
  | nil => rfl
  | cons t r ih =>
    cases t with
    | mdef n d => have := h _ (List.mem_cons_self); simp [Top.isRule] at this
    | rule sel body => simpa [buildTable] using ih (fun t ht => h t (List.mem_cons_of_mem _ ht))

theorem rulesOf_append (a b : List Top) : rulesOf (a ++ b) = rulesOf a ++ rulesOf b := by
  induction a with
  | nil => rfl
  | cons t r ih => cases t <;> simp [rulesOf, ih]

theorem rulesOf_defs (ds : List Top) (h : ∀ t ∈ ds, t.isDef = true) : rulesOf ds = [] := by
  induction ds with
  | nil => rfl
  | cons t r ih =>
    cases t with
    | mdef n d => simpa [rulesOf] using ih (fun t ht => h t (List.mem_cons_of_mem _ ht))
    | rule sel body => have := h _ (List.mem_cons_self); simp [Top.isDef] at this

theorem Table.ext' {a b : Table} (h1 : a.mixins = b.mixins) (h2 : a.blocks = b.blocks) : a = b := by
  cases a; cases b; simp_all

theorem buildTable_swap (ds rs : List Top) (hd : ∀ t ∈ ds, t.isDef = true)
    (hr : ∀ t ∈ rs, t.isRule = true) : buildTable (ds ++ rs) = buildTable (rs ++ ds) := by
  apply Table.ext'
  · rw [buildTable_mixins_append, buildTable_mixins_append, buildTable_mixins_rules rs hr]; simp
  · rw [buildTable_blocks_append, buildTable_blocks_append, buildTable_blocks_defs ds hd]; simp

/-! ### parameter binding -/

theorem bindParams_full : ∀ (ps : List (String × Option Value)) (as : List Value),
    ps.length ≤ as.length → bindParams ps as = some ((ps.map Prod.fst).zip as)
  | [], _, _ => by simp [bindParams]
  | (p, d) :: ps, [], h => by simp at h
  | (p, d) :: ps, a :: as, h => by
    have := bindParams_full ps as (by simpa using h)
    simp [bindParams, this]

theorem bindParams_split : ∀ (ps : List (String × Option Value)) (as : List Value),
    bindParams ps as =
      (bindParams (ps.drop as.length) []).map (fun f => (ps.map Prod.fst).zip as ++ f)
  | [], as => by simp [bindParams]
  | (p, d) :: ps, [] => by simp
  | (p, d) :: ps, a :: as => by
    have := bindParams_split ps as
    simp only [bindParams, this, List.length_cons, List.drop_succ_cons, List.map_cons,
      List.zip_cons_cons, Option.map_map]
    rfl

theorem bindParams_nil_some : ∀ (ps : List (String × Option Value)),
    (∀ p ∈ ps, p.2.isSome = true) → bindParams ps [] = some (ps.map (fun p => (p.1, p.2.getD [])))
  | [], _ => rfl
  | (p, none) :: ps, h => by have := h _ (List.mem_cons_self); simp at this
  | (p, some d) :: ps, h => by
    have := bindParams_nil_some ps (fun q hq => h q (List.mem_cons_of_mem _ hq))
    simp [bindParams, this]

theorem bindParams_nil_none_iff : ∀ (ps : List (String × Option Value)),
    bindParams ps [] = none ↔ ∃ p ∈ ps, p.2 = none
  | [] => by simp [bindParams]
  | (p, none) :: ps => by simp [bindParams]
  | (p, some d) :: ps => by
    have := bindParams_nil_none_iff ps
    simp [bindParams, this]

theorem bindParams_none_iff (ps : List (String × Option Value)) (as : List Value) :
    bindParams ps as = none ↔ ∃ p ∈ ps.drop as.length, p.2 = none := by
  rw [bindParams_split, Option.map_eq_none_iff, bindParams_nil_none_iff]

/-- the names bound are the parameter names, in order -/
theorem bindParams_names : ∀ (ps : List (String × Option Value)) (as : List Value) (f : Frame),
    bindParams ps as = some f → f.map Prod.fst = ps.map Prod.fst
  | [], _, f, h => by simp [bindParams] at h; subst h; rfl
  | (p, d) :: ps, a :: as, f, h => by
    simp only [bindParams, Option.map_eq_some_iff] at h
    obtain ⟨g, hg, rfl⟩ := h
    simp [bindParams_names ps as g hg]
  | (p, some d) :: ps, [], f, h => by
    simp only [bindParams, Option.map_eq_some_iff] at h
    obtain ⟨g, hg, rfl⟩ := h
    simp [bindParams_names ps [] g hg]
  | (p, none) :: ps, [], f, h => by simp [bindParams] at h

/-- the values bound are arguments or defaults -/
theorem bindParams_values : ∀ (ps : List (String × Option Value)) (as : List Value) (f : Frame),
    bindParams ps as = some f → ∀ nv ∈ f, nv.2 ∈ as ∨ ∃ p ∈ ps, p.2 = some nv.2
  | [], _, f, h => by simp [bindParams] at h; subst h; simp
  | (p, d) :: ps, a :: as, f, h => by
    simp only [bindParams, Option.map_eq_some_iff] at h
    obtain ⟨g, hg, rfl⟩ := h
    intro nv hnv
    rcases List.mem_cons.mp hnv with rfl | hnv
    · simp
    · rcases bindParams_values ps as g hg nv hnv with h1 | ⟨q, hq, h2⟩
      · exact .inl (List.mem_cons_of_mem _ h1)
      · exact .inr ⟨q, List.mem_cons_of_mem _ hq, h2⟩
  | (p, some d) :: ps, [], f, h => by
    simp only [bindParams, Option.map_eq_some_iff] at h
    obtain ⟨g, hg, rfl⟩ := h
    intro nv hnv
    rcases List.mem_cons.mp hnv with rfl | hnv
    · exact .inr ⟨_, List.mem_cons_self, rfl⟩
    · rcases bindParams_values ps [] g hg nv hnv with h1 | ⟨q, hq, h2⟩
      · simp at h1
      · exact .inr ⟨q, List.mem_cons_of_mem _ hq, h2⟩
  | (p, none) :: ps, [], f, h => by simp [bindParams] at h

/-! ### frames -/

theorem Frame.get_append (f g : Frame) (n : String) :
    Frame.get (f ++ g) n = (match Frame.get f n with | some v => some v | none => Frame.get g n) := by
  induction f with
  | nil => simp [Frame.get]
  | cons kw r ih =>
    obtain ⟨k, w⟩ := kw
    by_cases h : k = n
    · simp [Frame.get, h]
    · simp [Frame.get, h, ih]

theorem Frame.get_none_iff (f : Frame) (n : String) :
    Frame.get f n = none ↔ n ∉ f.map Prod.fst := by
  induction f with
  | nil => simp [Frame.get]
  | cons kw r ih =>
    obtain ⟨k, w⟩ := kw
    by_cases h : k = n
    · simp [Frame.get, h]
    · have h' : ¬ n = k := fun e => h e.symm
      simp [Frame.get, h, h', ih]

theorem Frame.get_mem (f : Frame) (n : String) (v : Value) (h : Frame.get f n = some v) :
    (n, v) ∈ f := by
  induction f with
  | nil => simp [Frame.get] at h
  | cons kw r ih =>
    obtain ⟨k, w⟩ := kw
    by_cases hk : k = n
    · simp [Frame.get, hk] at h; subst hk; subst h; exact List.mem_cons_self
    · simp [Frame.get, hk] at h; exact List.mem_cons_of_mem _ (ih h)

theorem tryMixin_arguments (sc : Scope) (d : MixinDef) (args : List Value) (fr : Frame)
    (h : tryMixin sc d args = some fr) (hne : args ≠ [])
    (hp : "arguments" ∉ d.params.map Prod.fst) :
    Frame.get fr "arguments" = some (intersperseSp args) := by
  unfold tryMixin at h
  cases hb : bindParams d.params args with
  | none => simp [hb] at h
  | some f =>
    have hemp : args.isEmpty = false := by cases args <;> simp_all
    simp only [hb, hemp, Bool.false_eq_true, if_false] at h
    split at h
    · cases h
      have hnone : Frame.get f "arguments" = none := by
        rw [Frame.get_none_iff, bindParams_names _ _ _ hb]; exact hp
      simp [Frame.get_append, hnone, Frame.get]
    · cases h


/-! ### one call -/

theorem evalArg_val (Y : Scope) (v : Value) :
    evalArg Y (.val v) = (match singleRef v with
      | some n => (match lookup Y n with | some w => .ok w | none => .error (.unknownVar n))
      | none => .ok v) := by
  match v with
  | [] => rfl
  | [.ref n] => rfl
  | [.lit s] => rfl
  | .ref n :: t :: r => rfl
  | .lit s :: t :: r => rfl

theorem evalArg_arith (Y : Scope) (n : String) (k : Int) :
    evalArg Y (.arith n k) = (liftV (expand Y 64 [.ref n]) >>= fun v => arithVal v k) := rfl

theorem call_unfold (tbl : Table) (gas depth : Nat) (inExp : Bool) (sc : Scope) (me : List Sel)
    (name : String) (args : List Arg) (rest : List Item) :
    evalItems tbl (gas + 1) depth inExp sc me (.call name args :: rest) =
      (if callDepth inExp depth > 64 then .error (.nameError name) else do
        let args' ← args.mapM (evalArg sc)
        let r1 ← expandCall tbl gas (callDepth inExp depth) sc me name args'
        let r ← evalItems tbl (gas + 1) depth inExp sc me rest
        pure (r1.1 ++ r.1, r1.2 ++ r.2)) := by
  rw [evalItems.eq_5]
  have hd : (if inExp = true then depth + 1 else 0) = callDepth inExp depth := rfl
  rw [hd]
  generalize callDepth inExp depth = d
  by_cases h : d > 64
  · simp only [h, if_true]
  · simp only [h, if_false]
    cases List.mapM (evalArg sc) args with
    | error e => rfl
    | ok args' =>
      simp only [bind, Except.bind, expandCall]
      cases firstApplicable sc args' (tbl.candidates name) with
      | some mf =>
        obtain ⟨m, fr⟩ := mf
        simp only
      | none =>
        simp only
        cases (tbl.candidates name).isEmpty with
        | false => rfl
        | true =>
          simp only [if_true]
          cases tbl.block name with
          | none => rfl
          | some body => simp only

/-! ### lookups -/

theorem lookup_append (top r : Scope) (n : String) :
    lookup (top ++ r) n = (match lookup top n with | some v => some v | none => lookup r n) := by
  induction top with
  | nil => rfl
  | cons f t ih =>
    simp only [List.cons_append, lookup_cons, ih]
    cases Frame.get f n <;> rfl

theorem hasRef_append (a b : Value) : hasRef (a ++ b) = (hasRef a || hasRef b) := by
  induction a with
  | nil => rfl
  | cons t r ih => cases t <;> simp [hasRef, ih]

theorem LitFrame_get {fr : Frame} (h : LitFrame fr = true) {n : String} {v : Value}
    (hg : Frame.get fr n = some v) : hasRef v = false := by
  have := Frame.get_mem fr n v hg
  simp only [LitFrame, List.all_eq_true] at h
  simpa using h _ this

theorem LitScope_cons (f : Frame) (sc : Scope) :
    LitScope (f :: sc) = (LitFrame f && LitScope sc) := by simp [LitScope]

theorem LitScope_lookup : ∀ {sc : Scope}, LitScope sc = true → ∀ {n : String} {v : Value},
    lookup sc n = some v → hasRef v = false
  | [], _, n, v, h => by simp [lookup] at h
  | f :: sc, hl, n, v, h => by
    rw [LitScope_cons, Bool.and_eq_true] at hl
    rw [lookup_cons] at h
    cases hg : Frame.get f n with
    | some w => rw [hg] at h; cases h; exact LitFrame_get hl.1 hg
    | none => rw [hg] at h; exact LitScope_lookup hl.2 h

/-! ### substitution in literal scopes: one round is enough -/

theorem substOnce_noRef (X : Scope) : ∀ v : Value, hasRef v = false → substOnce X v = .ok v
  | [], _ => rfl
  | .lit s :: r, h => by
    simp only [hasRef] at h
    simp [substOnce, substOnce_noRef X r h, bind, Except.bind, pure, Except.pure]
  | .ref n :: r, h => by simp [hasRef] at h

theorem substOnce_lit {X : Scope} (hX : LitScope X = true) : ∀ (v v' : Value),
    substOnce X v = .ok v' → hasRef v' = false
  | [], v', h => by cases h; rfl
  | .lit s :: r, v', h => by
    simp only [substOnce] at h
    cases hr : substOnce X r with
    | error e => simp [hr, bind, Except.bind] at h
    | ok r' =>
      simp only [hr, bind, Except.bind, pure, Except.pure] at h
      cases h
      simpa [hasRef] using substOnce_lit hX r r' hr
  | .ref n :: r, v', h => by
    simp only [substOnce] at h
    cases hl : lookup X n with
    | none => simp [hl] at h
    | some w =>
      simp only [hl] at h
      cases hr : substOnce X r with
      | error e => simp [hr, bind, Except.bind] at h
      | ok r' =>
        simp only [hr, bind, Except.bind, pure, Except.pure] at h
        cases h
        rw [hasRef_append, LitScope_lookup hX hl, substOnce_lit hX r r' hr]; rfl

theorem expand_of_noRef (X : Scope) (fuel : Nat) (v : Value) (h : hasRef v = false) :
    expand X fuel v = .ok v := by
  cases fuel <;> simp [expand, h]

/-- in a scope of literal values the first round of substitution is the last -/
theorem expand_lit {X : Scope} (hX : LitScope X = true) (fuel : Nat) (v : Value) :
    expand X (fuel + 1) v = substOnce X v := by
  by_cases h : hasRef v = true
  · simp only [expand, h, if_true]
    cases hs : substOnce X v with
    | error e => rfl
    | ok v' => simp only; exact expand_of_noRef X fuel v' (substOnce_lit hX v v' hs)
  · have h' : hasRef v = false := by simpa using h
    simp [expand, h', substOnce_noRef X v h']

theorem substOnce_lit_append (X : Scope) : ∀ (w r : Value), hasRef w = false →
    substOnce X (w ++ r) = (substOnce X r).map (w ++ ·)
  | [], r, _ => by
    simp only [List.nil_append]
    cases substOnce X r <;> rfl
  | .lit s :: w, r, h => by
    simp only [hasRef] at h
    simp only [List.cons_append, substOnce, substOnce_lit_append X w r h]
    cases substOnce X r <;> rfl
  | .ref n :: w, r, h => by simp [hasRef] at h

/-- `X1` is `X2` with the frame `fr` slipped in (under frames that bind nothing) -/
def Splits (X1 : Scope) (fr : Frame) (X2 : Scope) : Prop :=
  ∀ n, lookup X1 n = (match Frame.get fr n with | some v => some v | none => lookup X2 n)

theorem Splits.base (fr : Frame) (sc : Scope) : Splits (fr :: sc) fr sc := fun _ => rfl

theorem Splits.push {X1 X2 : Scope} {fr : Frame} (h : Splits X1 fr X2) :
    Splits ([] :: X1) fr ([] :: X2) := by
  intro n; rw [lookup_nil_cons, lookup_nil_cons]; exact h n

theorem Splits.agree {X1 X2 : Scope} {fr : Frame} (h : Splits X1 fr X2) {p : String}
    (hp : Frame.get fr p = none) : lookup X1 p = lookup X2 p := by
  rw [h p, hp]

theorem substOnce_subst {X1 X2 : Scope} {fr : Frame} (hs : Splits X1 fr X2)
    (hf : LitFrame fr = true) : ∀ v : Value, substOnce X1 v = substOnce X2 (substValue fr v)
  | [] => rfl
  | .lit s :: r => by simp only [substValue, substOnce, substOnce_subst hs hf r]
  | .ref n :: r => by
    simp only [substValue, substOnce, hs n]
    cases hg : Frame.get fr n with
    | some w =>
      simp only
      rw [substOnce_lit_append X2 w _ (LitFrame_get hf hg), ← substOnce_subst hs hf r]
      cases substOnce X1 r <;> rfl
    | none =>
      simp only [substOnce, substOnce_subst hs hf r]

theorem expand_subst {X1 X2 : Scope} {fr : Frame} (hs : Splits X1 fr X2)
    (hf : LitFrame fr = true) (h1 : LitScope X1 = true) (h2 : LitScope X2 = true)
    (fuel : Nat) (v : Value) :
    expand X1 (fuel + 1) v = expand X2 (fuel + 1) (substValue fr v) := by
  rw [expand_lit h1, expand_lit h2, substOnce_subst hs hf]

theorem substValue_noRef (fr : Frame) : ∀ v : Value, hasRef v = false → substValue fr v = v
  | [], _ => rfl
  | .lit s :: r, h => by simp only [hasRef] at h; simp [substValue, substValue_noRef fr r h]
  | .ref n :: r, h => by simp [hasRef] at h


/-! ### arguments -/

theorem singleRef_some {v : Value} {n : String} (h : singleRef v = some n) : v = [.ref n] := by
  match v with
  | [] => simp [singleRef] at h
  | [.ref m] => simp [singleRef] at h; subst h; rfl
  | [.lit s] => simp [singleRef] at h
  | .ref m :: t :: r => simp [singleRef] at h
  | .lit s :: t :: r => simp [singleRef] at h

theorem singleRef_noRef {v : Value} (h : hasRef v = false) : singleRef v = none := by
  cases hs : singleRef v with
  | none => rfl
  | some n => rw [singleRef_some hs] at h; simp [hasRef] at h

theorem substOnce_agree {Y1 Y2 : Scope} {N : List String}
    (h : ∀ n ∈ N, lookup Y1 n = lookup Y2 n) :
    ∀ v : Value, refsIn N v = true → substOnce Y1 v = substOnce Y2 v
  | [], _ => rfl
  | .lit s :: r, hr => by
    simp only [refsIn] at hr
    simp only [substOnce, substOnce_agree h r hr]
  | .ref n :: r, hr => by
    simp only [refsIn, Bool.and_eq_true, List.contains_iff_mem] at hr
    simp only [substOnce, substOnce_agree h r hr.2, h n hr.1]

theorem arithVal_ok {v : Value} {k : Int} {r : Value} (h : arithVal v k = .ok r) :
    ∃ s, r = [.lit s] := by
  unfold arithVal at h
  split at h
  · simp only at h
    split at h <;> cases h <;> exact ⟨_, rfl⟩
  · cases h

theorem arithVal_of_num {v : Value} (k : Int) (h : (numOf v).isSome = true) :
    ∃ r, arithVal v k = .ok r := by
  unfold arithVal
  cases hn : numOf v with
  | none => simp [hn] at h
  | some q =>
    simp only
    split <;> exact ⟨_, rfl⟩

theorem substOnce_single (Y : Scope) (n : String) :
    substOnce Y [.ref n] = (match lookup Y n with
      | none => .error (.unknownVar n)
      | some v => .ok v) := by
  simp only [substOnce]
  cases lookup Y n with
  | none => rfl
  | some v => simp [bind, Except.bind, pure, Except.pure]

theorem evalArg_congr {Y1 Y2 : Scope} {N : List String} (h1 : LitScope Y1 = true)
    (h2 : LitScope Y2 = true) (h : ∀ n ∈ N, lookup Y1 n = lookup Y2 n) :
    ∀ a : Arg, closedArg N a = true → evalArg Y1 a = evalArg Y2 a
  | .val v, hc => by
    rw [evalArg_val, evalArg_val]
    simp only [closedArg] at hc
    cases hs : singleRef v with
    | none => rfl
    | some n =>
      simp only [hs, List.contains_iff_mem] at hc
      simp only [h n hc]
  | .arith n k, hc => by
    simp only [closedArg, List.contains_iff_mem] at hc
    rw [evalArg_arith, evalArg_arith, expand_lit h1, expand_lit h2, substOnce_single,
      substOnce_single, h n hc]

theorem evalArg_subst {X1 X2 : Scope} {fr : Frame} (hs : Splits X1 fr X2)
    (hf : LitFrame fr = true) (h1 : LitScope X1 = true) (h2 : LitScope X2 = true) :
    ∀ a : Arg, inlineArgOK fr a = true → evalArg X1 a = evalArg X2 (substArg fr a)
  | .val v, hc => by
    simp only [substArg]
    rw [evalArg_val]
    simp only [inlineArgOK] at hc
    cases hsr : singleRef v with
    | some n =>
      have := singleRef_some hsr
      subst this
      simp only [substValue, hs n]
      cases hg : Frame.get fr n with
      | some w =>
        simp only [List.append_nil]
        rw [evalArg_val, singleRef_noRef (LitFrame_get hf hg)]
      | none =>
        simp only
        rw [evalArg_val]; rfl
    | none =>
      simp only [hsr, Bool.not_eq_true'] at hc
      rw [substValue_noRef fr v hc, evalArg_val, hsr]
  | .arith n k, hc => by
    simp only [inlineArgOK] at hc
    rw [evalArg_arith, expand_lit h1, substOnce_single, hs n]
    simp only [substArg]
    cases hg : Frame.get fr n with
    | some w =>
      simp only [hg] at hc
      obtain ⟨r, hr⟩ := arithVal_of_num k hc
      obtain ⟨s, rfl⟩ := arithVal_ok hr
      simp only [hr]
      rw [evalArg_val]
      simp [liftV, bind, Except.bind, hr, singleRef]
    | none =>
      simp only
      rw [evalArg_arith, expand_lit h2, substOnce_single]

theorem evalArg_lit {Y : Scope} (hY : LitScope Y = true) :
    ∀ (a : Arg) (w : Value), (∀ v, a = .val v → singleRef v = none → hasRef v = false) →
      evalArg Y a = .ok w → hasRef w = false
  | .val v, w, hv, h => by
    rw [evalArg_val] at h
    cases hs : singleRef v with
    | some n =>
      simp only [hs] at h
      cases hl : lookup Y n with
      | none => simp [hl] at h
      | some u => simp only [hl] at h; cases h; exact LitScope_lookup hY hl
    | none => simp only [hs] at h; cases h; exact hv v rfl hs
  | .arith n k, w, _, h => by
    rw [evalArg_arith] at h
    cases he : liftV (expand Y 64 [.ref n]) with
    | error e => simp [he, bind, Except.bind] at h
    | ok u =>
      simp only [he, bind, Except.bind] at h
      obtain ⟨s, rfl⟩ := arithVal_ok h
      rfl

theorem closedArg_simple {N : List String} {a : Arg} (h : closedArg N a = true) :
    ∀ v, a = .val v → singleRef v = none → hasRef v = false := by
  intro v hv hs; subst hv; simpa [closedArg, hs] using h

theorem inlineArgOK_simple {fr : Frame} {a : Arg} (h : inlineArgOK fr a = true) :
    ∀ v, a = .val v → singleRef v = none → hasRef v = false := by
  intro v hv hs; subst hv; simpa [inlineArgOK, hs] using h

/-! ### `mapM` in `Except` -/

theorem mapM_congr' {α β ε : Type} {f g : α → Except ε β} :
    ∀ l : List α, (∀ a ∈ l, f a = g a) → l.mapM f = l.mapM g
  | [], _ => rfl
  | a :: l, h => by
    simp only [List.mapM_cons, h a List.mem_cons_self,
      mapM_congr' l (fun b hb => h b (List.mem_cons_of_mem _ hb))]

theorem mapM_ok_all {α β ε : Type} {f : α → Except ε β} {P : β → Prop} :
    ∀ (l : List α) (vs : List β), l.mapM f = .ok vs → (∀ a ∈ l, ∀ v, f a = .ok v → P v) →
      ∀ v ∈ vs, P v
  | [], vs, h, _ => by
    simp only [List.mapM_nil, pure, Except.pure] at h; cases h; simp
  | a :: l, vs, h, hp => by
    simp only [List.mapM_cons] at h
    cases ha : f a with
    | error e => simp [ha, bind, Except.bind] at h
    | ok b =>
      cases hl : l.mapM f with
      | error e => simp [ha, hl, bind, Except.bind] at h
      | ok bs =>
        simp only [ha, hl, bind, Except.bind, pure, Except.pure] at h
        cases h
        intro v hv
        rcases List.mem_cons.mp hv with rfl | hv
        · exact hp a List.mem_cons_self _ ha
        · exact mapM_ok_all l bs hl (fun c hc => hp c (List.mem_cons_of_mem _ hc)) v hv

theorem staticArgs_mapM (Y : Scope) : ∀ (as : List Arg) (vs : List Value),
    staticArgs as = some vs → as.mapM (evalArg Y) = .ok vs
  | [], vs, h => by simp only [staticArgs] at h; cases h; rfl
  | .val v :: r, vs, h => by
    simp only [staticArgs] at h
    split at h
    · cases h
    · rename_i hv
      simp only [Option.map_eq_some_iff] at h
      obtain ⟨ws, hws, rfl⟩ := h
      simp only [List.mapM_cons, staticArgs_mapM Y r ws hws, evalArg_val,
        singleRef_noRef (by simpa using hv)]
      rfl
  | .arith n k :: r, vs, h => by simp [staticArgs] at h


/-! ### guards and applicability -/

theorem condHolds_congr (frd : Frame) {Y1 Y2 : Scope} (c : GCond)
    (h : lookup Y1 c.param = lookup Y2 c.param) : condHolds frd Y1 c = condHolds frd Y2 c := by
  unfold condHolds; rw [h]

theorem condHolds_decided (frd : Frame) (Y1 Y2 : Scope) (c : GCond)
    (h : ((Frame.get frd c.param).bind numOf).isSome = true) :
    condHolds frd Y1 c = condHolds frd Y2 c := by
  unfold condHolds
  cases hq : (Frame.get frd c.param).bind numOf with
  | none => simp [hq] at h
  | some q => rfl

theorem all_congr' {α : Type} {l : List α} {f g : α → Bool} (h : ∀ a ∈ l, f a = g a) :
    l.all f = l.all g := by
  induction l with
  | nil => rfl
  | cons a l ih =>
    simp only [List.all_cons, h a List.mem_cons_self,
      ih (fun b hb => h b (List.mem_cons_of_mem _ hb))]

theorem any_congr' {α : Type} {l : List α} {f g : α → Bool} (h : ∀ a ∈ l, f a = g a) :
    l.any f = l.any g := by
  induction l with
  | nil => rfl
  | cons a l ih =>
    simp only [List.any_cons, h a List.mem_cons_self,
      ih (fun b hb => h b (List.mem_cons_of_mem _ hb))]

theorem guardHolds_congr (frd : Frame) (Y1 Y2 : Scope) (g : List (List GCond))
    (h : ∀ ch ∈ g, ∀ c ∈ ch, condHolds frd Y1 c = condHolds frd Y2 c) :
    guardHolds frd Y1 g = guardHolds frd Y2 g := by
  unfold guardHolds
  congr 1
  exact any_congr' (fun ch hch => all_congr' (h ch hch))

theorem mem_guardParams {d : MixinDef} {ch : List GCond} {c : GCond} (h1 : ch ∈ d.guard)
    (h2 : c ∈ ch) : c.param ∈ guardParams d := by
  unfold guardParams
  exact List.mem_map.mpr ⟨c, List.mem_flatten.mpr ⟨ch, h1, h2⟩, rfl⟩

theorem tryMixin_some {Y : Scope} {d : MixinDef} {args : List Value} {frd : Frame}
    (h : tryMixin Y d args = some frd) :
    ∃ f0, bindParams d.params args = some f0 ∧
      frd = f0 ++ [("arguments", intersperseSp (if args.isEmpty then f0.map (·.2) else args))] := by
  unfold tryMixin at h
  cases hb : bindParams d.params args with
  | none => simp [hb] at h
  | some f0 =>
    simp only [hb] at h
    refine ⟨f0, rfl, ?_⟩
    by_cases hg : (guardHolds
        (f0 ++ [("arguments", intersperseSp (if args.isEmpty then f0.map (·.2) else args))]) Y d.guard
          && !d.body.isEmpty) = true
    · rw [if_pos hg] at h; cases h; rfl
    · rw [if_neg hg] at h; cases h

theorem tryMixin_congr {Y1 Y2 : Scope} {d : MixinDef} {args : List Value}
    (h : ∀ p ∈ guardParams d, lookup Y1 p = lookup Y2 p ∨ guardDecided d args p = true) :
    tryMixin Y1 d args = tryMixin Y2 d args := by
  unfold tryMixin
  cases hb : bindParams d.params args with
  | none => rfl
  | some f0 =>
    simp only
    rw [guardHolds_congr _ Y1 Y2 d.guard]
    intro ch hch c hc
    rcases h c.param (mem_guardParams hch hc) with h | h
    · exact condHolds_congr _ c h
    · apply condHolds_decided
      simp only [guardDecided, hb] at h
      rw [Frame.get_append]
      cases hg : Frame.get f0 c.param with
      | none => simp [hg] at h
      | some v => simpa [hg] using h

theorem firstApplicable_congr {Y1 Y2 : Scope} {args : List Value} :
    ∀ cands : List MixinDef, (∀ d ∈ cands, tryMixin Y1 d args = tryMixin Y2 d args) →
      firstApplicable Y1 args cands = firstApplicable Y2 args cands
  | [], _ => rfl
  | d :: ds, h => by
    simp only [firstApplicable, h d List.mem_cons_self,
      firstApplicable_congr ds (fun e he => h e (List.mem_cons_of_mem _ he))]

theorem firstApplicable_some {Y : Scope} {args : List Value} {m : MixinDef} {frd : Frame} :
    ∀ cands : List MixinDef, firstApplicable Y args cands = some (m, frd) →
      m ∈ cands ∧ tryMixin Y m args = some frd
  | [], h => by simp [firstApplicable] at h
  | d :: ds, h => by
    simp only [firstApplicable] at h
    cases ht : tryMixin Y d args with
    | some f =>
      simp only [ht] at h
      cases h
      exact ⟨List.mem_cons_self, ht⟩
    | none =>
      simp only [ht] at h
      obtain ⟨h1, h2⟩ := firstApplicable_some ds h
      exact ⟨List.mem_cons_of_mem _ h1, h2⟩

theorem mem_candidates {tbl : Table} {name : String} {m : MixinDef}
    (h : m ∈ tbl.candidates name) : (name, m) ∈ tbl.mixins := by
  unfold Table.candidates at h
  obtain ⟨⟨k, d⟩, hk, rfl⟩ := List.mem_map.mp h
  obtain ⟨hm, he⟩ := List.mem_filter.mp hk
  have : k = name := by simpa using he
  subst this
  exact hm

theorem block_mem {tbl : Table} {name : String} {body : List Item}
    (h : tbl.block name = some body) : ∃ k, (k, body) ∈ tbl.blocks := by
  unfold Table.block at h
  simp only [Option.map_eq_some_iff] at h
  obtain ⟨⟨k, b⟩, hk, rfl⟩ := h
  exact ⟨k, List.mem_of_find?_eq_some hk⟩

theorem closed_mixin {tbl : Table} {fr : Frame} (h : ClosedBodies tbl fr = true) {n : String}
    {d : MixinDef} (hm : (n, d) ∈ tbl.mixins) :
    defaultsLit d = true ∧ closedItems tbl fr (ownNames d) d.body = true := by
  simp only [ClosedBodies, Bool.and_eq_true, List.all_eq_true] at h
  exact h.1 _ hm

theorem closed_block {tbl : Table} {fr : Frame} (h : ClosedBodies tbl fr = true) {n : String}
    {b : List Item} (hm : (n, b) ∈ tbl.blocks) : closedItems tbl fr [] b = true := by
  simp only [ClosedBodies, Bool.and_eq_true, List.all_eq_true] at h
  exact h.2 _ hm

/-! ### the frame of an expansion -/

theorem intersperseSp_lit : ∀ vs : List Value, (∀ v ∈ vs, hasRef v = false) →
    hasRef (intersperseSp vs) = false
  | [], _ => rfl
  | [v], h => by simpa [intersperseSp] using h v (by simp)
  | v :: w :: r, h => by
    simp only [intersperseSp, hasRef_append, h v (by simp),
      intersperseSp_lit (w :: r) (fun u hu => h u (List.mem_cons_of_mem _ hu))]
    rfl

theorem tryMixin_names {Y : Scope} {d : MixinDef} {args : List Value} {frd : Frame}
    (h : tryMixin Y d args = some frd) : frd.map Prod.fst = ownNames d := by
  obtain ⟨f0, hb, rfl⟩ := tryMixin_some h
  simp [ownNames, bindParams_names _ _ _ hb]

theorem tryMixin_lit {Y : Scope} {d : MixinDef} {args : List Value} {frd : Frame}
    (h : tryMixin Y d args = some frd) (ha : ∀ v ∈ args, hasRef v = false)
    (hd : defaultsLit d = true) : LitFrame frd = true := by
  obtain ⟨f0, hb, rfl⟩ := tryMixin_some h
  have h0 : ∀ nv ∈ f0, hasRef nv.2 = false := by
    intro nv hnv
    rcases bindParams_values _ _ _ hb nv hnv with h1 | ⟨p, hp, h2⟩
    · exact ha _ h1
    · simp only [defaultsLit, List.all_eq_true] at hd
      have := hd p hp
      rw [h2] at this
      simpa using this
  simp only [LitFrame, List.all_append, Bool.and_eq_true, List.all_eq_true, List.all_cons,
    List.all_nil, Bool.and_true, Bool.not_eq_true']
  refine ⟨fun nv hnv => h0 nv hnv, ?_⟩
  apply intersperseSp_lit
  split
  · intro v hv
    obtain ⟨nv, hnv, rfl⟩ := List.mem_map.mp hv
    exact h0 nv hnv
  · exact ha

theorem get_of_mem_names {f : Frame} {n : String} (h : n ∈ f.map Prod.fst) :
    ∃ v, Frame.get f n = some v := by
  cases hg : Frame.get f n with
  | some v => exact ⟨v, rfl⟩
  | none => exact absurd h ((Frame.get_none_iff f n).mp hg)


/-! ### closed items do not see below the frames that bind their names -/

theorem lookup_cons_congr (f : Frame) {Y1 Y2 : Scope} {n : String}
    (h : lookup Y1 n = lookup Y2 n) : lookup (f :: Y1) n = lookup (f :: Y2) n := by
  rw [lookup_cons, lookup_cons, h]

theorem lookup_cons_bound {f : Frame} (Y1 Y2 : Scope) {n : String}
    (h : n ∈ f.map Prod.fst) : lookup (f :: Y1) n = lookup (f :: Y2) n := by
  obtain ⟨v, hv⟩ := get_of_mem_names h
  rw [lookup_cons, lookup_cons, hv]

theorem evalItems_closed {tbl : Table} {fr : Frame} (hcb : ClosedBodies tbl fr = true) :
    ∀ (gas depth : Nat) (inExp : Bool) (Y1 Y2 : Scope) (me : List Sel) (items : List Item)
      (N : List String),
      LitScope Y1 = true → LitScope Y2 = true →
      (∀ n ∈ N, lookup Y1 n = lookup Y2 n) →
      (∀ p, Frame.get fr p = none → lookup Y1 p = lookup Y2 p) →
      closedItems tbl fr N items = true →
      evalItems tbl gas depth inExp Y1 me items = evalItems tbl gas depth inExp Y2 me items := by
  intro gas
  induction gas with
  | zero =>
    intro depth inExp Y1 Y2 me items N _ _ _ _ _
    cases items with
    | nil => rw [evalItems.eq_1, evalItems.eq_1]
    | cons it rest => rw [evalItems.eq_2, evalItems.eq_2]
  | succ gas ih =>
    intro depth inExp Y1 Y2 me items
    induction items with
    | nil => intros; rw [evalItems.eq_1, evalItems.eq_1]
    | cons it rest ihr =>
      intro N h1 h2 hN hF hc
      simp only [closedItems, Bool.and_eq_true] at hc
      have hrest := ihr N h1 h2 hN hF hc.2
      cases it with
      | decl p v =>
        have hv : refsIn N v = true := by simpa [closedItem] using hc.1
        rw [evalItems.eq_3, evalItems.eq_3, hrest, expand_lit h1, expand_lit h2,
          substOnce_agree hN v hv]
      | rule sel body =>
        have hb : closedItems tbl fr N body = true := by simpa [closedItem] using hc.1
        rw [evalItems.eq_4, evalItems.eq_4, hrest,
          ih depth inExp ([] :: Y1) ([] :: Y2) _ body N (by simpa [LitScope_cons, LitFrame] using h1)
            (by simpa [LitScope_cons, LitFrame] using h2)
            (fun n hn => lookup_cons_congr [] (hN n hn))
            (fun p hp => lookup_cons_congr [] (hF p hp)) hb]
      | call name args =>
        have hc1 := hc.1
        simp only [closedItem, Bool.and_eq_true, List.all_eq_true] at hc1
        obtain ⟨hargs, hguards⟩ := hc1
        have hm : args.mapM (evalArg Y1) = args.mapM (evalArg Y2) :=
          mapM_congr' args (fun a ha => evalArg_congr h1 h2 hN a (hargs a ha))
        rw [call_unfold, call_unfold, hrest, hm]
        split
        · rfl
        · cases hm2 : args.mapM (evalArg Y2) with
          | error e => rfl
          | ok args' =>
            have hlit : ∀ v ∈ args', hasRef v = false :=
              mapM_ok_all args args' hm2
                (fun a ha v hv => evalArg_lit h2 a v (closedArg_simple (hargs a ha)) hv)
            have key : expandCall tbl gas (callDepth inExp depth) Y1 me name args' =
                expandCall tbl gas (callDepth inExp depth) Y2 me name args' := by
              unfold expandCall
              have hfa : firstApplicable Y1 args' (tbl.candidates name) =
                  firstApplicable Y2 args' (tbl.candidates name) := by
                apply firstApplicable_congr
                intro d hd
                apply tryMixin_congr
                intro p hp
                have := hguards d hd p hp
                rcases Bool.or_eq_true _ _ |>.mp this with hpn | hpn
                · left
                  rcases Bool.or_eq_true _ _ |>.mp hpn with hpn | hpn
                  · exact hN p (by simpa using hpn)
                  · exact hF p (by simpa using hpn)
                · right
                  cases hst : staticArgs args with
                  | none => simp [hst] at hpn
                  | some vs =>
                    simp only [hst] at hpn
                    have := staticArgs_mapM Y2 _ _ hst
                    rw [hm2] at this
                    cases this
                    exact hpn
              rw [hfa]
              cases hfa2 : firstApplicable Y2 args' (tbl.candidates name) with
              | some mf =>
                obtain ⟨m, frd⟩ := mf
                simp only
                obtain ⟨hmem, htry⟩ := firstApplicable_some _ hfa2
                obtain ⟨hdl, hcl⟩ := closed_mixin hcb (mem_candidates hmem)
                have hfl := tryMixin_lit htry hlit hdl
                have hnames := tryMixin_names htry
                exact ih _ true (frd :: Y1) (frd :: Y2) me m.body (ownNames m)
                  (by rw [LitScope_cons, hfl, h1]; rfl) (by rw [LitScope_cons, hfl, h2]; rfl)
                  (fun n hn => lookup_cons_bound Y1 Y2 (by rw [hnames]; exact hn))
                  (fun p hp => lookup_cons_congr frd (hF p hp)) hcl
              | none =>
                simp only
                split
                · cases hbl : tbl.block name with
                  | none => rfl
                  | some body =>
                    simp only
                    obtain ⟨k, hk⟩ := block_mem hbl
                    exact ih _ true Y1 Y2 me body [] h1 h2 (fun n hn => by simp at hn) hF
                      (closed_block hcb hk)
                · rfl
            simp only [bind, Except.bind, key]


/-! ### inlining -/

theorem evalItems_inline {tbl : Table} {fr : Frame} (hcb : ClosedBodies tbl fr = true)
    (hf : LitFrame fr = true) :
    ∀ (gas depth : Nat) (inExp : Bool) (X1 X2 : Scope) (me : List Sel) (body : List Item),
      Splits X1 fr X2 → LitScope X1 = true → LitScope X2 = true →
      inlineItemsOK tbl fr body = true →
      evalItems tbl gas depth inExp X1 me body =
        evalItems tbl gas depth inExp X2 me (substItems fr body) := by
  intro gas
  induction gas with
  | zero =>
    intro depth inExp X1 X2 me body _ _ _ _
    cases body with
    | nil => rw [substItems, evalItems.eq_1, evalItems.eq_1]
    | cons it rest => rw [substItems, evalItems.eq_2, evalItems.eq_2]
  | succ gas ih =>
    intro depth inExp X1 X2 me body
    induction body with
    | nil => intros; rw [substItems, evalItems.eq_1, evalItems.eq_1]
    | cons it rest ihr =>
      intro hs h1 h2 hc
      simp only [inlineItemsOK, Bool.and_eq_true] at hc
      have hrest := ihr hs h1 h2 hc.2
      rw [substItems]
      cases it with
      | decl p v =>
        rw [substItem, evalItems.eq_3, evalItems.eq_3, hrest, expand_subst hs hf h1 h2]
      | rule sel b =>
        have hb : inlineItemsOK tbl fr b = true := by simpa [inlineItemOK] using hc.1
        rw [substItem, evalItems.eq_4, evalItems.eq_4, hrest,
          ih depth inExp ([] :: X1) ([] :: X2) _ b hs.push (by simpa [LitScope_cons, LitFrame] using h1)
            (by simpa [LitScope_cons, LitFrame] using h2) hb]
      | call name args =>
        have hc1 := hc.1
        simp only [inlineItemOK, Bool.and_eq_true, List.all_eq_true] at hc1
        obtain ⟨hargs, hguards⟩ := hc1
        have hm : args.mapM (evalArg X1) = (args.map (substArg fr)).mapM (evalArg X2) := by
          rw [List.mapM_map]
          exact mapM_congr' args (fun a ha => evalArg_subst hs hf h1 h2 a (hargs a ha))
        rw [substItem, call_unfold, call_unfold, hrest, ← hm]
        split
        · rfl
        · cases hm1 : args.mapM (evalArg X1) with
          | error e => rfl
          | ok args' =>
            have hlit : ∀ v ∈ args', hasRef v = false :=
              mapM_ok_all args args' hm1
                (fun a ha v hv => evalArg_lit h1 a v (inlineArgOK_simple (hargs a ha)) hv)
            have hF : ∀ p, Frame.get fr p = none → lookup X1 p = lookup X2 p :=
              fun p hp => hs.agree hp
            have key : expandCall tbl gas (callDepth inExp depth) X1 me name args' =
                expandCall tbl gas (callDepth inExp depth) X2 me name args' := by
              unfold expandCall
              have hfa : firstApplicable X1 args' (tbl.candidates name) =
                  firstApplicable X2 args' (tbl.candidates name) := by
                apply firstApplicable_congr
                intro d hd
                apply tryMixin_congr
                intro p hp
                have := hguards d hd p hp
                rcases Bool.or_eq_true _ _ |>.mp this with hpn | hpn
                · exact .inl (hF p (by simpa using hpn))
                · right
                  cases hst : staticArgs (args.map (substArg fr)) with
                  | none => simp [hst] at hpn
                  | some vs =>
                    simp only [hst] at hpn
                    have := staticArgs_mapM X2 _ _ hst
                    rw [← hm, hm1] at this
                    cases this
                    exact hpn
              rw [hfa]
              cases hfa2 : firstApplicable X2 args' (tbl.candidates name) with
              | some mf =>
                obtain ⟨m, frd⟩ := mf
                simp only
                obtain ⟨hmem, htry⟩ := firstApplicable_some _ hfa2
                obtain ⟨hdl, hcl⟩ := closed_mixin hcb (mem_candidates hmem)
                have hfl := tryMixin_lit htry hlit hdl
                have hnames := tryMixin_names htry
                exact evalItems_closed hcb gas _ true (frd :: X1) (frd :: X2) me m.body (ownNames m)
                  (by rw [LitScope_cons, hfl, h1]; rfl) (by rw [LitScope_cons, hfl, h2]; rfl)
                  (fun n hn => lookup_cons_bound X1 X2 (by rw [hnames]; exact hn))
                  (fun p hp => lookup_cons_congr frd (hF p hp)) hcl
              | none =>
                simp only
                split
                · cases hbl : tbl.block name with
                  | none => rfl
                  | some body =>
                    simp only
                    obtain ⟨k, hk⟩ := block_mem hbl
                    exact evalItems_closed hcb gas _ true X1 X2 me body [] h1 h2
                      (fun n hn => by simp at hn) hF (closed_block hcb hk)
                · rfl
            simp only [bind, Except.bind, key]


/-! ### a structurally recursive evaluator, for concrete evaluations in the kernel

`evalItems` is defined by well-founded recursion and does not reduce under `decide +kernel`.
`evalF n` follows the same equations with one more fuel `n` for the structure of the recursion and
answers `none` when `n` runs out; whenever it answers `some r`, `r` is the value of `evalItems`. -/

def evalF (tbl : Table) : Nat → Nat → Nat → Bool → Scope → List Sel → List Item →
    Option (Except Err (List (String × String) × List OutRule))
  | 0, _, _, _, _, _, _ => none
  | _ + 1, _, _, _, _, _, [] => some (.ok ([], []))
  | _ + 1, 0, _, _, _, _, _ :: _ => some (.error .crash)
  | n + 1, gas + 1, depth, inExp, sc, me, .decl p v :: rest =>
      (evalF tbl n (gas + 1) depth inExp sc me rest).map fun r => do
        let v' ← liftV (expand sc 64 v)
        let (ds, out) ← r
        pure ((p, valText v') :: ds, out)
  | n + 1, gas + 1, depth, inExp, sc, me, .rule sel body :: rest =>
      match evalF tbl n gas depth inExp ([] :: sc) (identParse (some me) sel) body,
            evalF tbl n (gas + 1) depth inExp sc me rest with
      | some r1, some r => some (do
          let (ds1, out1) ← r1
          let own : List OutRule := if ds1.isEmpty then [] else [⟨identParse (some me) sel, ds1⟩]
          let (ds, out) ← r
          pure (ds, own ++ out1 ++ out))
      | _, _ => none
  | n + 1, gas + 1, depth, inExp, sc, me, .call name args :: rest =>
      if callDepth inExp depth > 64 then some (.error (.nameError name)) else
      match args.mapM (evalArg sc) with
      | .error e => some (.error e)
      | .ok args' =>
        let r1? := match firstApplicable sc args' (tbl.candidates name) with
          | some (m, fr) => evalF tbl n gas (callDepth inExp depth) true (fr :: sc) me m.body
          | none =>
              if (tbl.candidates name).isEmpty then
                match tbl.block name with
                | some body => evalF tbl n gas (callDepth inExp depth) true sc me body
                | none => some (.ok ([], []))
              else some (.ok ([], []))
        match r1?, evalF tbl n (gas + 1) depth inExp sc me rest with
        | some r1, some r => some (do
            let r1 ← r1
            let r ← r
            pure (r1.1 ++ r.1, r1.2 ++ r.2))
        | _, _ => none

theorem evalF_sound (tbl : Table) : ∀ (n gas depth : Nat) (inExp : Bool) (sc : Scope) (me : List Sel)
    (items : List Item) (r : Except Err (List (String × String) × List OutRule)),
    evalF tbl n gas depth inExp sc me items = some r →
      evalItems tbl gas depth inExp sc me items = r := by
  intro n
  induction n with
  | zero => intro gas depth inExp sc me items r h; simp [evalF] at h
  | succ n ih =>
    intro gas depth inExp sc me items r h
    cases items with
    | nil => simp only [evalF] at h; cases h; rw [evalItems.eq_1]
    | cons it rest =>
      cases gas with
      | zero => simp only [evalF] at h; cases h; rw [evalItems.eq_2]
      | succ gas =>
        cases it with
        | decl p v =>
          simp only [evalF, Option.map_eq_some_iff] at h
          obtain ⟨r0, h0, rfl⟩ := h
          rw [evalItems.eq_3, ih _ _ _ _ _ _ _ h0]
        | rule sel body =>
          simp only [evalF] at h
          cases h1 : evalF tbl n gas depth inExp ([] :: sc) (identParse (some me) sel) body with
          | none => simp [h1] at h
          | some r1 =>
            cases h2 : evalF tbl n (gas + 1) depth inExp sc me rest with
            | none => simp [h1, h2] at h
            | some r2 =>
              simp only [h1, h2] at h
              cases h
              rw [evalItems.eq_4, ih _ _ _ _ _ _ _ h1, ih _ _ _ _ _ _ _ h2]
        | call name args =>
          rw [call_unfold]
          simp only [evalF] at h
          by_cases hd : callDepth inExp depth > 64
          · simp only [hd, if_true] at h; cases h; simp only [hd, if_true]
          · simp only [hd, if_false] at h
            simp only [hd, if_false]
            cases ha : args.mapM (evalArg sc) with
            | error e => simp only [ha] at h; cases h; rfl
            | ok args' =>
              simp only [ha] at h
              have key : ∀ r1, (match firstApplicable sc args' (tbl.candidates name) with
                  | some (m, fr) => evalF tbl n gas (callDepth inExp depth) true (fr :: sc) me m.body
                  | none =>
                      if (tbl.candidates name).isEmpty then
                        match tbl.block name with
                        | some body => evalF tbl n gas (callDepth inExp depth) true sc me body
                        | none => some (.ok ([], []))
                      else some (.ok ([], []))) = some r1 →
                  expandCall tbl gas (callDepth inExp depth) sc me name args' = r1 := by
                intro r1 hr1
                unfold expandCall
                cases hfa : firstApplicable sc args' (tbl.candidates name) with
                | some mf =>
                  obtain ⟨m, fr⟩ := mf
                  simp only [hfa] at hr1
                  exact ih _ _ _ _ _ _ _ hr1
                | none =>
                  simp only [hfa] at hr1
                  simp only
                  split
                  · rename_i he
                    simp only [he, if_true] at hr1
                    cases hb : tbl.block name with
                    | none => simp only [hb] at hr1; cases hr1; rfl
                    | some body => simp only [hb] at hr1; exact ih _ _ _ _ _ _ _ hr1
                  · rename_i he
                    simp only [he] at hr1
                    cases hr1; rfl
              split at h
              · rename_i r1 r2 hr1 hr2
                cases h
                rw [ih _ _ _ _ _ _ _ hr2]
                simp only [bind, Except.bind, key r1 hr1]
              · cases h

def compileRulesF (tbl : Table) (n gas : Nat) :
    List (List Tok × List Item) → Option (Except Err (List OutRule))
  | [] => some (.ok [])
  | (sel, body) :: r =>
      match evalF tbl n gas 0 false [[], []] (identParse none sel) body, compileRulesF tbl n gas r with
      | some a, some b => some (do
          let a ← (do
            let (ds, out) ← a
            let own : List OutRule := if ds.isEmpty then [] else [⟨identParse none sel, ds⟩]
            pure (own ++ out))
          let rest ← b
          pure (a ++ rest))
      | _, _ => none

theorem compileRulesF_sound (tbl : Table) (n gas : Nat) :
    ∀ (rs : List (List Tok × List Item)) (r : Except Err (List OutRule)),
      compileRulesF tbl n gas rs = some r → compileRules tbl gas rs = r
  | [], r, h => by simp only [compileRulesF] at h; cases h; rfl
  | (sel, body) :: rs, r, h => by
    simp only [compileRulesF] at h
    split at h
    · rename_i a b ha hb
      cases h
      simp only [compileRules, compileRule, evalF_sound tbl _ _ _ _ _ _ _ _ ha,
        compileRulesF_sound tbl n gas rs b hb]
    · cases h

/-- concrete evaluation of `compile` through the structural evaluator -/
theorem compile_of_F (n gas : Nat) (sheet : List Top) (r : Except Err (List OutRule))
    (h : compileRulesF (buildTable sheet) n gas (rulesOf sheet) = some r) : compile gas sheet = r := by
  rw [compile_eq_go, go_eq_compileRules]
  exact compileRulesF_sound _ n gas _ r h


/-! ### decidable equality of items (the model derives none), for the examples -/

mutual
def decEqItem : (a b : Item) → Decidable (a = b)
  | .decl p v, .decl q w =>
      if h : p = q ∧ v = w then isTrue (by rw [h.1, h.2])
      else isFalse (by intro e; cases e; exact h ⟨rfl, rfl⟩)
  | .rule s b, .rule t c =>
      match decEq s t, decEqItems b c with
      | isTrue h1, isTrue h2 => isTrue (by rw [h1, h2])
      | isFalse h1, _ => isFalse (by intro e; cases e; exact h1 rfl)
      | _, isFalse h2 => isFalse (by intro e; cases e; exact h2 rfl)
  | .call n as, .call m bs =>
      if h : n = m ∧ as = bs then isTrue (by rw [h.1, h.2])
      else isFalse (by intro e; cases e; exact h ⟨rfl, rfl⟩)
  | .decl _ _, .rule _ _ => isFalse (by intro e; cases e)
  | .decl _ _, .call _ _ => isFalse (by intro e; cases e)
  | .rule _ _, .decl _ _ => isFalse (by intro e; cases e)
  | .rule _ _, .call _ _ => isFalse (by intro e; cases e)
  | .call _ _, .decl _ _ => isFalse (by intro e; cases e)
  | .call _ _, .rule _ _ => isFalse (by intro e; cases e)
def decEqItems : (a b : List Item) → Decidable (a = b)
  | [], [] => isTrue rfl
  | [], _ :: _ => isFalse (by intro e; cases e)
  | _ :: _, [] => isFalse (by intro e; cases e)
  | a :: as, b :: bs =>
      match decEqItem a b, decEqItems as bs with
      | isTrue h1, isTrue h2 => isTrue (by rw [h1, h2])
      | isFalse h1, _ => isFalse (by intro e; cases e; exact h1 rfl)
      | _, isFalse h2 => isFalse (by intro e; cases e; exact h2 rfl)
end

instance : DecidableEq Item := decEqItem
deriving instance DecidableEq for GCond
deriving instance DecidableEq for MixinDef

end Lessm.Mixin
