/-
  Helper lemmas for C05 (mixins).
-/
import Lessm.Spec.MixinSpec
import Lessm.Lemmas.VarsLemmas

namespace Lessm.Mixin
open Lessm.Vars Lessm.Sel

/-! ### the sheet as table + rules -/

theorem compile_eq_go (gas : Nat) (sheet : List Top) :
    compile gas sheet = compile.go gas (buildTable sheet) sheet := rfl

theorem go_eq_compileRules (gas : Nat) (tbl : Table) :
    ∀ sheet : List Top, compile.go gas tbl sheet = compileRules tbl gas (rulesOf sheet) := by
  intro sheet
  induction sheet with
  | nil => rfl
  | cons t r ih =>
    cases t with
    | mdef n d => simpa [compile.go, rulesOf] using ih
    | rule sel body =>
      simp only [compile.go, rulesOf, compileRules, compileRule, ih]
      cases evalItems tbl gas 0 false [[], []] (identParse none sel) body with
      | error e => rfl
      | ok p =>
        obtain ⟨ds, out⟩ := p
        cases compileRules tbl gas (rulesOf r) with
        | error e => rfl
        | ok rest => rfl

theorem buildTable_mixins_append (a b : List Top) :
    (buildTable (a ++ b)).mixins = (buildTable a).mixins ++ (buildTable b).mixins := by
  induction a with
  | nil => simp [buildTable]
  | cons t r ih => cases t <;> simp [buildTable, ih]

theorem buildTable_blocks_append (a b : List Top) :
    (buildTable (a ++ b)).blocks = (buildTable a).blocks ++ (buildTable b).blocks := by
  induction a with
  | nil => simp [buildTable]
  | cons t r ih => cases t <;> simp [buildTable, ih]

theorem buildTable_blocks_defs (ds : List Top) (h : ∀ t ∈ ds, t.isDef = true) :
    (buildTable ds).blocks = [] := by
  induction ds with
  | nil => rfl
  | cons t r ih =>
    cases t with
    | mdef n d => simpa [buildTable] using ih (fun t ht => h t (List.mem_cons_of_mem _ ht))
    | rule sel body => have := h _ (List.mem_cons_self); simp [Top.isDef] at this

theorem buildTable_mixins_rules (rs : List Top) (h : ∀ t ∈ rs, t.isRule = true) :
    (buildTable rs).mixins = [] := by
  induction rs with
  | nil => rfl
  | cons t r ih =>
    cases t with
    | mdef n d => have := h _ (List.mem_cons_self); simp [Top.isRule] at this
    | rule sel body => simpa [buildTable] using ih (fun t ht => h t (List.mem_cons_of_mem _ ht))

theorem rulesOf_append (a b : List Top) : rulesOf (a ++ b) = rulesOf a ++ rulesOf b := by
  induction a with
  | nil => rfl
  | cons t r ih => cases t <;> simp [rulesOf, ih]

theorem rulesOf_defs (ds : List Top) (h : ∀ t ∈ ds, t.isDef = true) : rulesOf ds = [] := by
  induction ds with
  | nil => rfl
  | cons t r ih =>
    cases t with
    | mdef n d => simpa [rulesOf] using ih (fun t ht => h t (List.mem_cons_of_mem _ ht))
    | rule sel body => have := h _ (List.mem_cons_self); simp [Top.isDef] at this

theorem Table.ext' {a b : Table} (h1 : a.mixins = b.mixins) (h2 : a.blocks = b.blocks) : a = b := by
  cases a; cases b; simp_all

theorem buildTable_swap (ds rs : List Top) (hd : ∀ t ∈ ds, t.isDef = true)
    (hr : ∀ t ∈ rs, t.isRule = true) : buildTable (ds ++ rs) = buildTable (rs ++ ds) := by
  apply Table.ext'
  · rw [buildTable_mixins_append, buildTable_mixins_append, buildTable_mixins_rules rs hr]; simp
  · rw [buildTable_blocks_append, buildTable_blocks_append, buildTable_blocks_defs ds hd]; simp

/-! ### parameter binding -/

theorem bindParams_full : ∀ (ps : List (String × Option Value)) (as : List Value),
    ps.length ≤ as.length → bindParams ps as = some ((ps.map Prod.fst).zip as)
  | [], _, _ => by simp [bindParams]
  | (p, d) :: ps, [], h => by simp at h
  | (p, d) :: ps, a :: as, h => by
    have := bindParams_full ps as (by simpa using h)
    simp [bindParams, this]

theorem bindParams_split : ∀ (ps : List (String × Option Value)) (as : List Value),
    bindParams ps as =
      (bindParams (ps.drop as.length) []).map (fun f => (ps.map Prod.fst).zip as ++ f)
  | [], as => by simp [bindParams]
  | (p, d) :: ps, [] => by simp
  | (p, d) :: ps, a :: as => by
    have := bindParams_split ps as
    simp only [bindParams, this, List.length_cons, List.drop_succ_cons, List.map_cons,
      List.zip_cons_cons, Option.map_map]
    rfl

theorem bindParams_nil_some : ∀ (ps : List (String × Option Value)),
    (∀ p ∈ ps, p.2.isSome = true) → bindParams ps [] = some (ps.map (fun p => (p.1, p.2.getD [])))
  | [], _ => rfl
  | (p, none) :: ps, h => by have := h _ (List.mem_cons_self); simp at this
  | (p, some d) :: ps, h => by
    have := bindParams_nil_some ps (fun q hq => h q (List.mem_cons_of_mem _ hq))
    simp [bindParams, this]

theorem bindParams_nil_none_iff : ∀ (ps : List (String × Option Value)),
    bindParams ps [] = none ↔ ∃ p ∈ ps, p.2 = none
  | [] => by simp [bindParams]
  | (p, none) :: ps => by simp [bindParams]
  | (p, some d) :: ps => by
    have := bindParams_nil_none_iff ps
    simp [bindParams, this]

theorem bindParams_none_iff (ps : List (String × Option Value)) (as : List Value) :
    bindParams ps as = none ↔ ∃ p ∈ ps.drop as.length, p.2 = none := by
  rw [bindParams_split, Option.map_eq_none_iff, bindParams_nil_none_iff]

/-- the names bound are the parameter names, in order -/
theorem bindParams_names : ∀ (ps : List (String × Option Value)) (as : List Value) (f : Frame),
    bindParams ps as = some f → f.map Prod.fst = ps.map Prod.fst
  | [], _, f, h => by simp [bindParams] at h; subst h; rfl
  | (p, d) :: ps, a :: as, f, h => by
    simp only [bindParams, Option.map_eq_some_iff] at h
    obtain ⟨g, hg, rfl⟩ := h
    simp [bindParams_names ps as g hg]
  | (p, some d) :: ps, [], f, h => by
    simp only [bindParams, Option.map_eq_some_iff] at h
    obtain ⟨g, hg, rfl⟩ := h
    simp [bindParams_names ps [] g hg]
  | (p, none) :: ps, [], f, h => by simp [bindParams] at h

/-- the values bound are arguments or defaults -/
theorem bindParams_values : ∀ (ps : List (String × Option Value)) (as : List Value) (f : Frame),
    bindParams ps as = some f → ∀ nv ∈ f, nv.2 ∈ as ∨ ∃ p ∈ ps, p.2 = some nv.2
  | [], _, f, h => by simp [bindParams] at h; subst h; simp
  | (p, d) :: ps, a :: as, f, h => by
    simp only [bindParams, Option.map_eq_some_iff] at h
    obtain ⟨g, hg, rfl⟩ := h
    intro nv hnv
    rcases List.mem_cons.mp hnv with rfl | hnv
    · simp
    · rcases bindParams_values ps as g hg nv hnv with h1 | ⟨q, hq, h2⟩
      · exact .inl (List.mem_cons_of_mem _ h1)
      · exact .inr ⟨q, List.mem_cons_of_mem _ hq, h2⟩
  | (p, some d) :: ps, [], f, h => by
    simp only [bindParams, Option.map_eq_some_iff] at h
    obtain ⟨g, hg, rfl⟩ := h
    intro nv hnv
    rcases List.mem_cons.mp hnv with rfl | hnv
    · exact .inr ⟨_, List.mem_cons_self, rfl⟩
    · rcases bindParams_values ps [] g hg nv hnv with h1 | ⟨q, hq, h2⟩
      · simp at h1
      · exact .inr ⟨q, List.mem_cons_of_mem _ hq, h2⟩
  | (p, none) :: ps, [], f, h => by simp [bindParams] at h

/-! ### frames -/

theorem Frame.get_append (f g : Frame) (n : String) :
    Frame.get (f ++ g) n = (match Frame.get f n with | some v => some v | none => Frame.get g n) := by
  induction f with
  | nil => simp [Frame.get]
  | cons kw r ih =>
    obtain ⟨k, w⟩ := kw
    by_cases h : k = n
    · simp [Frame.get, h]
    · simp [Frame.get, h, ih]

theorem Frame.get_none_iff (f : Frame) (n : String) :
    Frame.get f n = none ↔ n ∉ f.map Prod.fst := by
  induction f with
  | nil => simp [Frame.get]
  | cons kw r ih =>
    obtain ⟨k, w⟩ := kw
    by_cases h : k = n
    · simp [Frame.get, h]
    · have h' : ¬ n = k := fun e => h e.symm
      simp [Frame.get, h, h', ih]

theorem Frame.get_mem (f : Frame) (n : String) (v : Value) (h : Frame.get f n = some v) :
    (n, v) ∈ f := by
  induction f with
  | nil => simp [Frame.get] at h
  | cons kw r ih =>
    obtain ⟨k, w⟩ := kw
    by_cases hk : k = n
    · simp [Frame.get, hk] at h; subst hk; subst h; exact List.mem_cons_self
    · simp [Frame.get, hk] at h; exact List.mem_cons_of_mem _ (ih h)

theorem tryMixin_arguments (sc : Scope) (d : MixinDef) (args : List Value) (fr : Frame)
    (h : tryMixin sc d args = some fr) (hne : args ≠ [])
    (hp : "arguments" ∉ d.params.map Prod.fst) :
    Frame.get fr "arguments" = some (intersperseSp args) := by
  unfold tryMixin at h
  cases hb : bindParams d.params args with
  | none => simp [hb] at h
  | some f =>
    have hemp : args.isEmpty = false := by cases args <;> simp_all
    simp only [hb, hemp, Bool.false_eq_true, if_false] at h
    split at h
    · cases h
      have hnone : Frame.get f "arguments" = none := by
        rw [Frame.get_none_iff, bindParams_names _ _ _ hb]; exact hp
      simp [Frame.get_append, hnone, Frame.get]
    · cases h


/-! ### one call -/

theorem evalArg_val (Y : Scope) (v : Value) :
    evalArg Y (.val v) = (match singleRef v with
      | some n => (match lookup Y n with | some w => .ok w | none => .error (.unknownVar n))
      | none => .ok v) := by
  match v with
  | [] => rfl
  | [.ref n] => rfl
  | [.lit s] => rfl
  | .ref n :: t :: r => rfl
  | .lit s :: t :: r => rfl

theorem evalArg_arith (Y : Scope) (n : String) (k : Int) :
    evalArg Y (.arith n k) = (liftV (expand Y 64 [.ref n]) >>= fun v => arithVal v k) := rfl

theorem call_unfold (tbl : Table) (gas depth : Nat) (inExp : Bool) (sc : Scope) (me : List Sel)
    (name : String) (args : List Arg) (rest : List Item) :
    evalItems tbl (gas + 1) depth inExp sc me (.call name args :: rest) =
      (if callDepth inExp depth > 64 then .error (.nameError name) else do
        let args' ← args.mapM (evalArg sc)
        let r1 ← expandCall tbl gas (callDepth inExp depth) sc me name args'
        let r ← evalItems tbl (gas + 1) depth inExp sc me rest
        pure (r1.1 ++ r.1, r1.2 ++ r.2)) := by
  rw [evalItems.eq_5]
  have hd : (if inExp = true then depth + 1 else 0) = callDepth inExp depth := rfl
  rw [hd]
  generalize callDepth inExp depth = d
  by_cases h : d > 64
  · simp only [h, if_true]
  · simp only [h, if_false]
    cases List.mapM (evalArg sc) args with
    | error e => rfl
    | ok args' =>
      simp only [bind, Except.bind, expandCall]
      cases firstApplicable sc args' (tbl.candidates name) with
      | some mf =>
        obtain ⟨m, fr⟩ := mf
        simp only
      | none =>
        simp only
        cases (tbl.candidates name).isEmpty with
        | false => rfl
        | true =>
          simp only [if_true]
          cases tbl.block name with
          | none => rfl
          | some body => simp only

/-! ### lookups -/

theorem lookup_append (top r : Scope) (n : String) :
    lookup (top ++ r) n = (match lookup top n with | some v => some v | none => lookup r n) := by
  induction top with
  | nil => rfl
  | cons f t ih =>
    simp only [List.cons_append, lookup_cons, ih]
    cases Frame.get f n <;> rfl

theorem hasRef_append (a b : Value) : hasRef (a ++ b) = (hasRef a || hasRef b) := by
  induction a with
  | nil => rfl
  | cons t r ih => cases t <;> simp [hasRef, ih]

theorem LitFrame_get {fr : Frame} (h : LitFrame fr = true) {n : String} {v : Value}
    (hg : Frame.get fr n = some v) : hasRef v = false := by
  have := Frame.get_mem fr n v hg
  simp only [LitFrame, List.all_eq_true] at h
  simpa using h _ this

theorem LitScope_cons (f : Frame) (sc : Scope) :
    LitScope (f :: sc) = (LitFrame f && LitScope sc) := by simp [LitScope]

theorem LitScope_lookup : ∀ {sc : Scope}, LitScope sc = true → ∀ {n : String} {v : Value},
    lookup sc n = some v → hasRef v = false
  | [], _, n, v, h => by simp [lookup] at h
  | f :: sc, hl, n, v, h => by
    rw [LitScope_cons, Bool.and_eq_true] at hl
    rw [lookup_cons] at h
    cases hg : Frame.get f n with
    | some w => rw [hg] at h; cases h; exact LitFrame_get hl.1 hg
    | none => rw [hg] at h; exact LitScope_lookup hl.2 h

/-! ### substitution in literal scopes: one round is enough -/

theorem substOnce_noRef (X : Scope) : ∀ v : Value, hasRef v = false → substOnce X v = .ok v
  | [], _ => rfl
  | .lit s :: r, h => by
    simp only [hasRef] at h
    simp [substOnce, substOnce_noRef X r h, bind, Except.bind, pure, Except.pure]
  | .ref n :: r, h => by simp [hasRef] at h

theorem substOnce_lit {X : Scope} (hX : LitScope X = true) : ∀ (v v' : Value),
    substOnce X v = .ok v' → hasRef v' = false
  | [], v', h => by cases h; rfl
  | .lit s :: r, v', h => by
    simp only [substOnce] at h
    cases hr : substOnce X r with
    | error e => simp [hr, bind, Except.bind] at h
    | ok r' =>
      simp only [hr, bind, Except.bind, pure, Except.pure] at h
      cases h
      simpa [hasRef] using substOnce_lit hX r r' hr
  | .ref n :: r, v', h => by
    simp only [substOnce] at h
    cases hl : lookup X n with
    | none => simp [hl] at h
    | some w =>
      simp only [hl] at h
      cases hr : substOnce X r with
      | error e => simp [hr, bind, Except.bind] at h
      | ok r' =>
        simp only [hr, bind, Except.bind, pure, Except.pure] at h
        cases h
        rw [hasRef_append, LitScope_lookup hX hl, substOnce_lit hX r r' hr]; rfl

theorem expand_of_noRef (X : Scope) (fuel : Nat) (v : Value) (h : hasRef v = false) :
    expand X fuel v = .ok v := by
  cases fuel <;> simp [expand, h]

/-- in a scope of literal values the first round of substitution is the last -/
theorem expand_lit {X : Scope} (hX : LitScope X = true) (fuel : Nat) (v : Value) :
    expand X (fuel + 1) v = substOnce X v := by
  by_cases h : hasRef v = true
  · simp only [expand, h, if_true]
    cases hs : substOnce X v with
    | error e => rfl
    | ok v' => simp only; exact expand_of_noRef X fuel v' (substOnce_lit hX v v' hs)
  · have h' : hasRef v = false := by simpa using h
    simp [expand, h', substOnce_noRef X v h']

theorem substOnce_lit_append (X : Scope) : ∀ (w r : Value), hasRef w = false →
    substOnce X (w ++ r) = (substOnce X r).map (w ++ ·)
  | [], r, _ => by
    simp only [List.nil_append]
    cases substOnce X r <;> rfl
  | .lit s :: w, r, h => by
    simp only [hasRef] at h
    simp only [List.cons_append, substOnce, substOnce_lit_append X w r h]
    cases substOnce X r <;> rfl
  | .ref n :: w, r, h => by simp [hasRef] at h

/-- `X1` is `X2` with the frame `fr` slipped in (under frames that bind nothing) -/
def Splits (X1 : Scope) (fr : Frame) (X2 : Scope) : Prop :=
  ∀ n, lookup X1 n = (match Frame.get fr n with | some v => some v | none => lookup X2 n)

theorem Splits.base (fr : Frame) (sc : Scope) : Splits (fr :: sc) fr sc := fun _ => rfl

theorem Splits.push {X1 X2 : Scope} {fr : Frame} (h : Splits X1 fr X2) :
    Splits ([] :: X1) fr ([] :: X2) := by
  intro n; rw [lookup_nil_cons, lookup_nil_cons]; exact h n

theorem Splits.agree {X1 X2 : Scope} {fr : Frame} (h : Splits X1 fr X2) {p : String}
    (hp : Frame.get fr p = none) : lookup X1 p = lookup X2 p := by
  rw [h p, hp]

theorem substOnce_subst {X1 X2 : Scope} {fr : Frame} (hs : Splits X1 fr X2)
    (hf : LitFrame fr = true) : ∀ v : Value, substOnce X1 v = substOnce X2 (substValue fr v)
  | [] => rfl
  | .lit s :: r => by simp only [substValue, substOnce, substOnce_subst hs hf r]
  | .ref n :: r => by
    simp only [substValue, substOnce, hs n]
    cases hg : Frame.get fr n with
    | some w =>
      simp only
      rw [substOnce_lit_append X2 w _ (LitFrame_get hf hg), ← substOnce_subst hs hf r]
      cases substOnce X1 r <;> rfl
    | none =>
      simp only [substOnce, substOnce_subst hs hf r]

theorem expand_subst {X1 X2 : Scope} {fr : Frame} (hs : Splits X1 fr X2)
    (hf : LitFrame fr = true) (h1 : LitScope X1 = true) (h2 : LitScope X2 = true)
    (fuel : Nat) (v : Value) :
    expand X1 (fuel + 1) v = expand X2 (fuel + 1) (substValue fr v) := by
  rw [expand_lit h1, expand_lit h2, substOnce_subst hs hf]

theorem substValue_noRef (fr : Frame) : ∀ v : Value, hasRef v = false → substValue fr v = v
  | [], _ => rfl
  | .lit s :: r, h => by simp only [hasRef] at h; simp [substValue, substValue_noRef fr r h]
  | .ref n :: r, h => by simp [hasRef] at h

end Lessm.Mixin
