/-
  Cross-model consistency, at-rules: the at-rule model (`Lessm.AtRule`) against the media model
  (`Lessm.Media`) on their common fragment.  Definitions and the lemmas behind
  Lessm/Props/CrossAt.lean.

  What the two models share:

    AtRule  flat rules `sel { decls }` (the selector is ONE opaque string, values evaluated by a
            parameter `ev`), `@media q { … }` (the query is ONE opaque string), statements, keyframes,
            `@font-face`-like blocks; empty rules and empty blocks are dropped.  An `@media` inside an
            `@media` stays nested.
    Media   rules with token-list selectors (`identParse`), declarations with literal values, `@media`
            with token-list queries; media blocks bubble out of rules, an `@media` inside an `@media`
            is merged into one `a and b`.

  The overlap: flat rules whose selector is one token that `identParse` leaves alone, at top level or
  directly inside a top-level `@media`.
-/
import Lessm.Lemmas.CrossLemmas
import Lessm.Model.AtRule

namespace Lessm.Cross
open Lessm.Sel

/-! ### embedding, observation, fragment -/

/-- an AtRule declaration as a Nest declaration, its value evaluated by `ev` -/
def declAM (ev : String → String) (d : AtRule.Decl) : Nest.Decl := ⟨d.prop, ev d.value⟩

mutual
/-- the common fragment embedded in Media: a flat rule `sel { decls }` has the one selector token `sel`,
    an `@media q { … }` block the one query token `q`; anything else (statements, keyframes, @font-face) has
    no counterpart in Media and is left out -/
def embedAMItem (ev : String → String) : AtRule.Item → List Media.Item
  | .rule s ds => [.rule [s] (ds.map (fun d => .decl (declAM ev d)))]
  | .media q body => [.media [q] (embedAM ev body)]
  | _ => []
def embedAM (ev : String → String) : List AtRule.Item → List Media.Item
  | [] => []
  | i :: is => embedAMItem ev i ++ embedAM ev is
end

mutual
/-- an evaluated AtRule tree observed the way `Media.obs` observes a Media tree -/
def obsAItem (ctx : List Media.Query) : AtRule.Item → List Media.Triple
  | .rule s ds => if ds.isEmpty then [] else [⟨ctx, [[s]], ds.map (declAM id)⟩]
  | .media q body => obsAList (ctx ++ [[q]]) body
  | _ => []
def obsAList (ctx : List Media.Query) : List AtRule.Item → List Media.Triple
  | [] => []
  | i :: is => obsAItem ctx i ++ obsAList ctx is
end

/-- a selector string that `Identifier.parse` returns as it is: a plain token (`plainTok`: none of
    `*` `,` `&` `>` `+` `~`, not of the form `?c?`) that is not the blank (a lone blank is filtered
    away: `identParse none [" "] = [[]]`) -/
def plainOne (s : Tok) : Bool := plainTok s && s != " "

mutual
/-- the common fragment: ordinary rules whose selector is one plain token (not the blank), and `@media`
    blocks holding only such rules (AtRule does not model an `@media` nested in an `@media`: lesscpy
    merges those, which is Media's subject) -/
def commonAMItem (inMedia : Bool) : AtRule.Item → Bool
  | .rule s _ => plainOne s
  | .media _ body => !inMedia && commonAM true body
  | _ => false
def commonAM (inMedia : Bool) : List AtRule.Item → Bool
  | [] => true
  | i :: is => commonAMItem inMedia i && commonAM inMedia is
end

/-! ### lemmas -/

theorem plainSel_one {s : Tok} (h : plainOne s = true) : plainSel [s] = true := by
  simp only [plainOne, Bool.and_eq_true, bne_iff_ne, ne_eq] at h
  simp [plainSel, h.1, h.2]

theorem identParse_one {s : Tok} (h : plainOne s = true) : identParse none [s] = [[s]] :=
  identParse_none_plain (plainSel_one h)

theorem obsAList_append (ctx : List Media.Query) (a b : List AtRule.Item) :
    obsAList ctx (a ++ b) = obsAList ctx a ++ obsAList ctx b := by
  induction a with
  | nil => simp [obsAList]
  | cons x xs ih => simp [obsAList, ih]

theorem declsOf_decls (f : AtRule.Decl → Nest.Decl) : ∀ ds : List AtRule.Decl,
    Media.declsOf (ds.map (fun d => Media.Item.decl (f d))) = ds.map f
  | [] => rfl
  | d :: r => by simp [Media.declsOf, declsOf_decls f r]

theorem evalList_decls (p : Option (List Sel)) (f : AtRule.Decl → Nest.Decl) :
    ∀ ds : List AtRule.Decl, Media.evalList p (ds.map (fun d => Media.Item.decl (f d))) = []
  | [] => rfl
  | d :: r => by simp [Media.evalList, Media.evalItem, evalList_decls p f r]

/-- what Media makes of an embedded flat rule: one block without inner blocks, or nothing -/
theorem evalItem_flatRule (ev : String → String) {s : Tok} (ds : List AtRule.Decl)
    (h : plainOne s = true) :
    Media.evalItem none (.rule [s] (ds.map (fun d => .decl (declAM ev d))))
      = if ds.isEmpty then [] else [.mk (.sel [[s]]) (ds.map (declAM ev)) []] := by
  rw [Media.evalItem_rule]
  simp only [Media.selfRule, identParse_one h, evalList_decls, declsOf_decls, List.filter_nil,
    List.flatMap_nil, List.append_nil, Media.optBlock, Media.OBlock.nonEmpty]
  cases ds <;> simp

/-- a flat rule: both models, observed under any media context -/
theorem obs_flatRule (ev : String → String) (ctx : List Media.Query) {s : Tok}
    (ds : List AtRule.Decl) (h : plainOne s = true) :
    obsAList ctx (AtRule.evalItem ev (.rule s ds))
      = Media.obsList ctx (Media.evalItem none (.rule [s] (ds.map (fun d => .decl (declAM ev d))))) := by
  rw [evalItem_flatRule ev ds h, AtRule.evalItem]
  cases ds with
  | nil => rfl
  | cons d r =>
    simp [obsAList, obsAItem, Media.obsList, Media.obs, AtRule.evalDecls, declAM]

theorem filter_media_flatRule (ev : String → String) {s : Tok} (ds : List AtRule.Decl)
    (h : plainOne s = true) :
    (Media.evalItem none (.rule [s] (ds.map (fun d => .decl (declAM ev d))))).filter (·.isMedia) = [] := by
  rw [evalItem_flatRule ev ds h]
  cases ds <;> simp [Media.OBlock.isMedia]

/-- the body of an `@media` of the fragment: rules only.  Nothing bubbles, and both models observe
    the same under any context -/
theorem inMedia_body (ev : String → String) (ctx : List Media.Query) : ∀ body : List AtRule.Item,
    commonAM true body = true →
      (Media.evalList none (embedAM ev body)).filter (·.isMedia) = []
      ∧ obsAList ctx (AtRule.evalList ev body)
          = Media.obsList ctx (Media.evalList none (embedAM ev body))
  | [], _ => by simp [embedAM, Media.evalList, AtRule.evalList, obsAList, Media.obsList]
  | i :: is, h => by
      simp only [commonAM, Bool.and_eq_true] at h
      obtain ⟨ih1, ih2⟩ := inMedia_body ev ctx is h.2
      cases i with
      | rule s ds =>
        have hs : plainOne s = true := by simpa [commonAMItem] using h.1
        simp only [embedAM, embedAMItem, List.singleton_append, Media.evalList, AtRule.evalList,
          List.filter_append, filter_media_flatRule ev ds hs, ih1, List.append_nil,
          obsAList_append, Media.obsList_append, obs_flatRule ev ctx ds hs, ih2, and_self]
      | media q b => simp [commonAMItem] at h
      | stmt t => simp [commonAMItem] at h
      | keyframes kw n fs => simp [commonAMItem] at h
      | declBlock p ds => simp [commonAMItem] at h

/-- a top-level `@media` of the fragment: both models, observed under any media context -/
theorem obs_mediaBlock (ev : String → String) (ctx : List Media.Query) (q : String)
    (body : List AtRule.Item) (h : commonAM true body = true) :
    obsAList ctx (AtRule.evalItem ev (.media q body))
      = Media.obsList ctx (Media.evalItem none (.media [q] (embedAM ev body))) := by
  obtain ⟨h1, h2⟩ := inMedia_body ev (ctx ++ [[q]]) body h
  have hd : Media.declsOf (embedAM ev body) = [] := by
    clear h1 h2
    induction body with
    | nil => rfl
    | cons i is ih =>
      simp only [commonAM, Bool.and_eq_true] at h
      cases i with
      | rule s ds => simpa [embedAM, embedAMItem, Media.declsOf] using ih h.2
      | media q b => simp [commonAMItem] at h
      | stmt t => simp [commonAMItem] at h
      | keyframes kw n fs => simp [commonAMItem] at h
      | declBlock p ds => simp [commonAMItem] at h
  rw [Media.evalItem_media, h1, List.flatMap_nil, List.append_nil, Media.obsList_optBlock,
    Media.selfMedia, filter_not_self h1, hd, AtRule.evalItem]
  simp only [Media.obs, List.isEmpty_nil, if_true, List.nil_append, ← h2]
  by_cases hb : (AtRule.evalList ev body).isEmpty = true
  · have : AtRule.evalList ev body = [] := by simpa using hb
    simp [this, obsAList]
  · simp [hb, obsAList, obsAItem]

/-- the sheet level of the fragment, under any media context -/
theorem obs_commonAM (ev : String → String) (ctx : List Media.Query) : ∀ sheet : List AtRule.Item,
    commonAM false sheet = true →
      obsAList ctx (AtRule.evalList ev sheet)
        = Media.obsList ctx (Media.evalList none (embedAM ev sheet))
  | [], _ => by simp [embedAM, Media.evalList, AtRule.evalList, obsAList, Media.obsList]
  | i :: is, h => by
      simp only [commonAM, Bool.and_eq_true] at h
      have ih := obs_commonAM ev ctx is h.2
      cases i with
      | rule s ds =>
        have hs : plainOne s = true := by simpa [commonAMItem] using h.1
        simp only [embedAM, embedAMItem, List.singleton_append, Media.evalList, AtRule.evalList,
          obsAList_append, Media.obsList_append, obs_flatRule ev ctx ds hs, ih]
      | media q b =>
        have hb : commonAM true b = true := by simpa [commonAMItem] using h.1
        simp only [embedAM, embedAMItem, List.singleton_append, Media.evalList, AtRule.evalList,
          obsAList_append, Media.obsList_append, obs_mediaBlock ev ctx q b hb, ih]
      | stmt t => simp [commonAMItem] at h
      | keyframes kw n fs => simp [commonAMItem] at h
      | declBlock p ds => simp [commonAMItem] at h

end Lessm.Cross
