/-
  Declarative vocabulary for C05 (mixins).  Nothing here is executed by the differential test; these
  are the notions the theorems of Lessm/Props/C05.lean are stated with.

    `rulesOf`, `compileRule`, `compileRules`   the sheet as "table + list of top-level rules"
    `substValue` / `substArg` / `substItems`    textual replacement of the names bound in a frame
    `LitFrame` / `LitScope`                     every bound value is made of literal tokens only
    `ClosedBodies`                              bodies stored in the table look up nothing below their
                                                own frame
    `InlineOK`                                  side condition on the body being inlined
-/
import Lessm.Model.Mixin
namespace Lessm.Mixin
open Lessm.Vars Lessm.Sel

/-! ### the sheet as a table and a list of rules -/

/-- the top-level rules of a sheet, in order -/
def rulesOf : List Top → List (List Tok × List Item)
  | [] => []
  | .mdef _ _ :: r => rulesOf r
  | .rule sel body :: r => (sel, body) :: rulesOf r

def Top.isDef : Top → Bool
  | .mdef _ _ => true
  | .rule _ _ => false

def Top.isRule : Top → Bool
  | .mdef _ _ => false
  | .rule _ _ => true

/-- what one top-level rule contributes to the output, the table being given -/
def compileRule (tbl : Table) (gas : Nat) (sel : List Tok) (body : List Item) :
    Except Err (List OutRule) := do
  let me := identParse none sel
  let (ds, out) ← evalItems tbl gas 0 false [[], []] me body
  let own : List OutRule := if ds.isEmpty then [] else [⟨me, ds⟩]
  pure (own ++ out)

/-- the rules one after the other (the first error wins) -/
def compileRules (tbl : Table) (gas : Nat) : List (List Tok × List Item) → Except Err (List OutRule)
  | [] => .ok []
  | (sel, body) :: r => do
      let a ← compileRule tbl gas sel body
      let rest ← compileRules tbl gas r
      pure (a ++ rest)

/-! ### one call -/

/-- the counter handed to a call: incremented inside an expansion, reset elsewhere -/
def callDepth (inExp : Bool) (depth : Nat) : Nat := if inExp then depth + 1 else 0

/-- what a call contributes once its arguments are evaluated: the body of the first applicable
    definition in a frame of its own; else, if there is no definition of that name at all, the body
    of the plain rule of that name in the caller's frame; else nothing -/
def expandCall (tbl : Table) (gas d : Nat) (sc : Scope) (me : List Sel) (name : String)
    (args' : List Value) : Except Err (List (String × String) × List OutRule) :=
  match firstApplicable sc args' (tbl.candidates name) with
  | some (m, fr) => evalItems tbl gas d true (fr :: sc) me m.body
  | none =>
      if (tbl.candidates name).isEmpty then
        match tbl.block name with
        | some body => evalItems tbl gas d true sc me body
        | none => .ok ([], [])
      else .ok ([], [])

/-! ### literal frames -/

def LitFrame (fr : Frame) : Bool := fr.all (fun nv => !hasRef nv.2)

def LitScope (sc : Scope) : Bool := sc.all LitFrame

/-! ### textual substitution -/

/-- every `@n` bound in `fr` is replaced by the tokens bound to it; other references stay -/
def substValue (fr : Frame) : Value → Value
  | [] => []
  | .lit s :: r => .lit s :: substValue fr r
  | .ref n :: r =>
      match Frame.get fr n with
      | some v => v ++ substValue fr r
      | none => .ref n :: substValue fr r

/-- the value of `@p + k` when `@p` stands for `v` (the computation inside `evalArg`) -/
def arithVal (v : Value) (k : Int) : Except Err Value :=
  match numOf v with
  | some q =>
      let r := q + (k : Rat)
      if r = 0 then .ok [.lit "0"]
      else .ok [.lit (toString r.num ++ (if r.den = 1 then "" else "/" ++ toString r.den) ++ unitOf v)]
  | none => .error .notNumeric

/-- a token-list argument is substituted; `@p + k` with `@p` bound in `fr` becomes the computed
    number (when `@p` is not a number the argument is left alone: see `inlineArgOK`) -/
def substArg (fr : Frame) : Arg → Arg
  | .val v => .val (substValue fr v)
  | .arith n k =>
      match Frame.get fr n with
      | some v =>
          match arithVal v k with
          | .ok w => .val w
          | .error _ => .arith n k
      | none => .arith n k

mutual
/-- declarations' values, call arguments and, recursively, the bodies of nested rules;
    selectors and names are untouched -/
def substItem (fr : Frame) : Item → Item
  | .decl p v => .decl p (substValue fr v)
  | .rule sel body => .rule sel (substItems fr body)
  | .call name args => .call name (args.map (substArg fr))
def substItems (fr : Frame) : List Item → List Item
  | [] => []
  | i :: r => substItem fr i :: substItems fr r
end

/-! ### closed bodies -/

/-- the argument shape `@n` that `evalArg` resolves by one lookup -/
def singleRef : Value → Option String
  | [.ref n] => some n
  | _ => none

/-- every reference of the value is one of `N` -/
def refsIn (N : List String) : Value → Bool
  | [] => true
  | .lit _ :: r => refsIn N r
  | .ref n :: r => N.contains n && refsIn N r

/-- an argument is `@n` or `@n + k` with `n ∈ N`, or a token list without references -/
def closedArg (N : List String) : Arg → Bool
  | .val v =>
      match singleRef v with
      | some n => N.contains n
      | none => !hasRef v
  | .arith n _ => N.contains n

/-- the names compared by the guard of a definition -/
def guardParams (d : MixinDef) : List String := d.guard.flatten.map (·.param)

/-- arguments that are known without evaluation -/
def staticArgs : List Arg → Option (List Value)
  | [] => some []
  | .val v :: r => if hasRef v then none else (staticArgs r).map (v :: ·)
  | .arith _ _ :: _ => none

/-- with these arguments, `d` either does not bind or binds the name `p` to a number -/
def guardDecided (d : MixinDef) (vs : List Value) (p : String) : Bool :=
  match bindParams d.params vs with
  | some f => ((Frame.get f p).bind numOf).isSome
  | none => true

mutual
/-- `N` are the names bound by the frame the items are evaluated in.  Values and arguments mention
    names of `N` only.  A call may only reach definitions whose guards compare names of `N`, or names
    that `fr` (the frame being substituted away further down the stack) does not bind, or names that
    the arguments, when they are all literal, bind to numbers: when the value bound to a guard
    parameter is not a number, `condHolds` falls back on a lookup of that name in the caller's
    scope. -/
def closedItem (tbl : Table) (fr : Frame) (N : List String) : Item → Bool
  | .decl _ v => refsIn N v
  | .rule _ body => closedItems tbl fr N body
  | .call name args =>
      args.all (closedArg N) &&
      (tbl.candidates name).all (fun d =>
        (guardParams d).all (fun p => N.contains p || (Frame.get fr p).isNone ||
          (match staticArgs args with
           | some vs => guardDecided d vs p
           | none => false)))
def closedItems (tbl : Table) (fr : Frame) (N : List String) : List Item → Bool
  | [] => true
  | i :: r => closedItem tbl fr N i && closedItems tbl fr N r
end

/-- the names bound by the frame of an expansion of `d` -/
def ownNames (d : MixinDef) : List String := d.params.map (·.1) ++ ["arguments"]

def defaultsLit (d : MixinDef) : Bool :=
  d.params.all (fun p => match p.2 with | some v => !hasRef v | none => true)

/-- every definition of the table has literal defaults and a body closed over its own parameters and
    `@arguments`; every plain rule of the table (usable as a mixin, evaluated in the caller's frame)
    mentions no variable at all. -/
def ClosedBodies (tbl : Table) (fr : Frame) : Bool :=
  tbl.mixins.all (fun nd => defaultsLit nd.2 && closedItems tbl fr (ownNames nd.2) nd.2.body) &&
  tbl.blocks.all (fun nb => closedItems tbl fr [] nb.2)

/-! ### side condition on the inlined body -/

/-- a token-list argument with a variable in it is exactly `@n` (a longer one is bound unevaluated
    by `evalArg`, and the callee would then read the caller's frame); `@p + k` with `@p` bound in `fr`
    needs `@p` to be a number there -/
def inlineArgOK (fr : Frame) : Arg → Bool
  | .val v =>
      match singleRef v with
      | some _ => true
      | none => !hasRef v
  | .arith n _ =>
      match Frame.get fr n with
      | some v => (numOf v).isSome
      | none => true

mutual
/-- for every call written in the body: the arguments are as `inlineArgOK` says, and every name `p`
    compared by a guard of a candidate is either not bound in `fr`, or the arguments are, after
    substitution, literal and `p` is bound to a number by them (so that the guard is decided without
    the fall-back lookup in the caller's scope). -/
def inlineItemOK (tbl : Table) (fr : Frame) : Item → Bool
  | .decl _ _ => true
  | .rule _ body => inlineItemsOK tbl fr body
  | .call name args =>
      args.all (inlineArgOK fr) &&
      (tbl.candidates name).all (fun d =>
        (guardParams d).all (fun p =>
          (Frame.get fr p).isNone ||
          (match staticArgs (args.map (substArg fr)) with
           | some vs => guardDecided d vs p
           | none => false)))
def inlineItemsOK (tbl : Table) (fr : Frame) : List Item → Bool
  | [] => true
  | i :: r => inlineItemOK tbl fr i && inlineItemsOK tbl fr r
end

/-- the condition of the task statement that turned out too weak (see Props/C05.lean): every guard of
    every definition compares only parameters of that definition -/
def GuardsOwn (tbl : Table) : Bool :=
  tbl.mixins.all (fun nd => (guardParams nd.2).all (fun p => (nd.2.params.map (·.1)).contains p))

end Lessm.Mixin
