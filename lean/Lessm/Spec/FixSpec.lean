/-
  C10 vocabulary (import-free): reading the compiler's own output back.

  `embed` turns an output rule into the source item a plain-CSS reading of its printed form denotes:
  the selector list joined with `,`, encoded combinators `?c?` written back as the combinator token,
  the declarations as they are.
-/
import Lessm.Model.Nest
import Lessm.Spec.PrintSpec
namespace Lessm.Nest
open Lessm.Sel

/-- the token the grammar delivers for an encoded combinator -/
def decodeTok (t : Tok) : Tok :=
  if t == "?>?" then ">" else if t == "?+?" then "+" else if t == "?~?" then "~" else t

def decodeSel (s : Sel) : List Tok := s.map decodeTok

def joinSels : List Sel → List Tok
  | [] => []
  | [s] => decodeSel s
  | s :: r => decodeSel s ++ "," :: joinSels r

def embedRule (r : OutRule) : Item := .rule (joinSels r.sels) (r.decls.map Item.decl)

def embed (out : List OutRule) : List Item := out.map embedRule

/-- canonical (already rooted) selector — one that is read back token by token: non-empty, no `,` `&`
    `*` tokens, no raw combinator tokens, no token of the shape `?c?` that is not an encoded combinator
    (a token merely containing `?`, like `[h="?"]`, is fine), no `" "` at either end,
    next to an encoded combinator or next to another `" "` (the printer collapses a double space, so a
    selector with two adjacent `" "` would be read back with one) -/
def canonTok (t : Tok) : Bool :=
  t != "," && t != "&" && t != "*" && !isComb t && (isEnc t || !isEncLike t)

def noSpaceBeforeEnc : Sel → Bool
  | [] => true
  | [t] => t != " "
  | t :: u :: r => !(t == " " && isEncLike u) && noSpaceBeforeEnc (u :: r)

def noSpaceAfterEnc : Sel → Bool
  | [] => true
  | [_] => true
  | t :: u :: r => !(isEnc t && u == " ") && noSpaceAfterEnc (u :: r)

def noDoubleSpace : Sel → Bool
  | [] => true
  | [_] => true
  | t :: u :: r => !(t == " " && u == " ") && noDoubleSpace (u :: r)

def CanonSel (s : Sel) : Bool :=
  !s.isEmpty && s.all canonTok && noSpaceBeforeEnc s && noSpaceAfterEnc s && noDoubleSpace s &&
    s.head? != some " "

def CanonOut (out : List OutRule) : Bool :=
  out.all (fun r => !r.decls.isEmpty && !r.sels.isEmpty && r.sels.all CanonSel)

/-! ### well-formed sources (hypothesis of `C10_out_canon`)

  A selector token list is read with a virtual `,` before its first and after its last token.
  `srcPair a b` (may `b` follow `a`?) forbids
    * `" "` after `" "`, after `,` (or at the start) and after a combinator: no double space, no part
      starting with a space, no space between a combinator and its right operand (the lexer drops it);
    * `,` after `,` (or at the start) and after a combinator — also at the virtual end: every
      comma-separated part is non-empty and does not end in a combinator.
  Tokens: no `*` (it is rewritten to `"* "`, which is not read back as one token), no token of the
  shape `?c?` (`isEncLike`; tokens that merely contain a `?` are allowed), and no `&` in a top-level rule. -/
def srcPair (a b : Tok) : Bool :=
  !(b == " " && (a == " " || a == "," || isComb a)) && !(b == "," && (a == "," || isComb a))

def srcChain (a : Tok) : List Tok → Bool
  | [] => true
  | b :: r => srcPair a b && srcChain b r

def srcTok (top : Bool) (t : Tok) : Bool := t != "*" && !isEncLike t && (!top || t != "&")

def selOK (top : Bool) (toks : List Tok) : Bool :=
  toks.all (srcTok top) && srcChain "," (toks ++ [","])

mutual
def itemOK (top : Bool) : Item → Bool
  | .decl _ => true
  | .rule sel body => selOK top sel && itemsOK false body
def itemsOK (top : Bool) : List Item → Bool
  | [] => true
  | i :: is => itemOK top i && itemsOK top is
end

/-- every rule's selector list is well formed; `&` only inside a rule -/
def SourceOK (sheet : List Item) : Bool := itemsOK true sheet

end Lessm.Nest
