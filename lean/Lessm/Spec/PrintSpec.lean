/-
  Declarative description of the formatter (import-free): printing factors through a LAYOUT — a list
  of tokens (emitted verbatim under every option vector) and optional-whitespace items (the only thing
  the options control).
-/
import Lessm.Model.Print
namespace Lessm.Print

/-- kinds of optional whitespace -/
inductive OptK
  | nl                    -- line break after `{` and after every declaration
  | ws                    -- space before `{`, after `:`, around combinators
  | commaWs               -- space after a comma of a value list
  | indent (n : Nat)      -- indentation of a line at nesting level n
  | selSep (n : Nat)      -- between two selectors of a list: line break + indentation
  | eb                    -- end of a top-level block
  | ebInner               -- end of a block nested in an at-rule, not the last one
  | ebLast                -- end of the last block nested in an at-rule
deriving Repr, DecidableEq

inductive Lay
  | tok (s : String)
  | opt (k : OptK)
deriving Repr, DecidableEq

def rep (n : Nat) (s : String) : String := String.join (List.replicate n s)

/-- what the option vector makes of each optional item -/
def realiseOpt (f : Fills) : OptK → String
  | .nl => f.nl
  | .ws => f.ws
  | .commaWs => if f.nl.isEmpty then "" else f.ws
  | .indent n => if f.nl.isEmpty then "" else rep n f.tab
  | .selSep n => f.nl ++ (if f.nl.isEmpty then "" else rep n f.tab)
  | .eb => f.eb
  | .ebInner => if f.nl.isEmpty then f.eb else f.nl
  | .ebLast => f.nl

def realise (f : Fills) : List Lay → String
  | [] => ""
  | .tok s :: r => s ++ realise f r
  | .opt k :: r => realiseOpt f k ++ realise f r

def laySel : List SelPiece → List Lay
  | [] => []
  | .text s :: r => .tok s :: laySel r
  | .comb c :: r => .opt .ws :: .tok c :: .opt .ws :: laySel r

def laySels (d : Nat) : List (List SelPiece) → List Lay
  | [] => []
  | [s] => laySel s
  | s :: r => laySel s ++ [.tok ",", .opt (.selSep d)] ++ laySels d r

def layValue : List ValPiece → List Lay
  | [] => []
  | .tok s :: r => .tok s :: layValue r
  | .sp :: r => .tok " " :: layValue r
  | .comma :: r => .tok "," :: .opt .commaWs :: layValue r

def layDecl (d : Nat) (x : Decl) : List Lay :=
  [.opt (.indent d), .tok x.prop, .tok ":", .opt .ws] ++ layValue x.value ++
    (if x.important then [.tok " !important"] else []) ++ [.tok ";", .opt .nl]

def layDecls (d : Nat) : List Decl → List Lay
  | [] => []
  | x :: r => layDecl d x ++ layDecls d r

/-- the closing of a block at nesting level d that is followed by `after` -/
inductive Pos | top | inner | last
deriving Repr, DecidableEq

def closeOpt : Pos → OptK
  | .top => .eb
  | .inner => .ebInner
  | .last => .ebLast

mutual
def layNode (d : Nat) (pos : Pos) : Node → List Lay
  | .rule sels decls =>
      if decls.isEmpty then [] else
      [.opt (.indent d)] ++ laySels d sels ++ [.opt .ws, .tok "{", .opt .nl] ++ layDecls (d + 1) decls ++
        [.opt (.indent d), .tok "}", .opt (closeOpt pos)]
  | .nest prelude inner =>
      if inner.isEmpty then [] else
      [.opt (.indent d), .tok prelude, .opt .ws, .tok "{", .opt .nl] ++ layNodes (d + 1) inner ++
        [.opt (.indent d), .tok "}", .opt (closeOpt pos)]
  | .stmt t => [.opt (.indent d), .tok t, .opt (closeOpt pos)]
def layNodes (d : Nat) : List Node → List Lay
  | [] => []
  | [n] => layNode d (if d = 0 then .top else .last) n
  | n :: r => layNode d (if d = 0 then .top else .inner) n ++ layNodes d r
end

def laySheet (sheet : List Node) : List Lay := layNodes 0 sheet

def toks : List Lay → List String
  | [] => []
  | .tok s :: r => s :: toks r
  | .opt _ :: r => toks r

end Lessm.Print

/-! ## Vocabulary of property C11 (definitions only; the theorems are in `Lessm/Props/C11.lean`) -/
namespace Lessm.Print

/-- the indentation unit of an option vector: one tab, or `spaces` spaces -/
def unitOf (o : Opts) : String :=
  if o.tabs then "\t" else String.ofList (List.replicate o.spaces ' ')

/-- a string made of whitespace only (possibly empty) -/
def wsOnly (s : String) : Bool := s.toList.all isWs

/-- the token text of a layout with every optional item erased -/
def eraseWs (l : List Lay) : String := String.join (toks l)

/-- `Interleaves ts s`: `s` is `g₀ t₀ g₁ t₁ … tₙ₋₁ gₙ` — the tokens `ts` in order, separated and
    surrounded by whitespace-only (possibly empty) strings `gᵢ` -/
inductive Interleaves : List String → String → Prop
  | nil (g : String) : wsOnly g = true → Interleaves [] g
  | cons (g t : String) (ts : List String) (s : String) :
      wsOnly g = true → Interleaves ts s → Interleaves (t :: ts) (g ++ t ++ s)

/-- the gaps of a rendering: what stands before the first token, between two tokens, after the last
    token (always one more entry than there are tokens) -/
def gaps (f : Fills) : List Lay → List String
  | [] => [""]
  | .tok _ :: r => "" :: gaps f r
  | .opt k :: r =>
      match gaps f r with
      | [] => [realiseOpt f k]
      | g :: gs => (realiseOpt f k ++ g) :: gs

/-- `weave [g₀, …, gₙ] [t₀, …, tₙ₋₁] = g₀ t₀ g₁ t₁ … tₙ₋₁ gₙ` -/
def weave : List String → List String → String
  | g :: gs, t :: ts => g ++ t ++ weave gs ts
  | g :: _, [] => g
  | [], _ => ""

/-- a character that is not whitespace -/
def notWs (c : Char) : Bool := !isWs c

/-! ### cleanliness of a sheet (hypothesis of `C11_layout`) -/

/-- the quote state machine of `indentChars` (`Block._indent`) -/
def qStep : Option Char → Char → Option Char
  | some q, c => if c == q then none else some q
  | none, c => if c == '"' || c == '\'' then some c else none

/-- a token text that re-indentation copies unchanged and after which it is outside a string
    literal again: no line break, and every quote is closed -/
def tokOk (s : String) : Bool :=
  !s.toList.contains '\n' && (s.toList.foldl qStep none).isNone

/-- non-empty and not starting with whitespace -/
def headOk : List Char → Bool
  | [] => false
  | c :: _ => !isWs c

/-- the fills of `--xminify` -/
def minFills : Fills := ⟨"", "", "", ""⟩

def selPieceOk : SelPiece → Bool
  | .text s => tokOk s
  | .comb c => tokOk c

def valPieceOk : ValPiece → Bool
  | .tok s => tokOk s
  | _ => true

def declOk (x : Decl) : Bool := tokOk x.prop && x.value.all valPieceOk

mutual
/-- a node that occurs inside an at-rule block (and so goes through `_indent`, `rstrip`, `strip`):
    it prints something, all its token texts are `tokOk`, its text does not begin with whitespace
    and — for a statement — does not end with whitespace -/
def innerOk : Node → Bool
  | .rule sels decls =>
      !decls.isEmpty && sels.all (fun s => s.all selPieceOk) && decls.all declOk &&
        headOk (fmtIdent minFills sels ++ "{").toList
  | .nest prelude inner =>
      !inner.isEmpty && tokOk prelude && headOk (prelude ++ "{").toList && innerOkL inner
  | .stmt t => tokOk t && headOk t.toList && headOk t.toList.reverse
def innerOkL : List Node → Bool
  | [] => true
  | n :: r => innerOk n && innerOkL r
end

/-- a top-level node: no condition on rules, statements and on the prelude of an at-rule block; the
    nodes inside an at-rule block are `innerOk` -/
def topOk : Node → Bool
  | .nest _ inner => innerOkL inner
  | _ => true

/-- the cleanliness hypothesis of `C11_layout` -/
def Clean (sheet : List Node) : Bool := sheet.all topOk

end Lessm.Print
