/-
  Declarative semantics of nested @media (import-free): every declaration list appears once, under
  the conjunction of all enclosing media queries and the full selector of its rule; within a rule the
  unconditional output (own declarations, then nested rules, depth first) precedes the
  media-conditional output, which follows in source order.
-/
import Lessm.Model.Media
namespace Lessm.Media
open Lessm.Sel Lessm.Nest

/-- conjunction of the enclosing condition (if any) with one more query -/
def conj (m : Option Query) (q : Query) : Query :=
  match m with
  | none => q
  | some a => mergeQ a q

structure STriple where
  media : Option Query
  sels : List Sel
  decls : List Decl
deriving Repr, DecidableEq

def own (m : Option Query) (s : List Sel) (ds : List Decl) : List STriple :=
  if ds.isEmpty then [] else [⟨m, s, ds⟩]

mutual
/-- output of an item that stays at the current media level -/
def specU (m : Option Query) (parent : Option (List Sel)) : Item → List STriple
  | .decl _ => []
  | .rule sel body =>
      let me := identParse parent sel
      own m me (declsOf body) ++ specUList m (some me) body
  | .media _ _ => []
def specUList (m : Option Query) (parent : Option (List Sel)) : List Item → List STriple
  | [] => []
  | i :: is => specU m parent i ++ specUList m parent is
/-- output of an item that bubbles out of the enclosing rule (everything under a nested @media) -/
def specB (m : Option Query) (parent : Option (List Sel)) : Item → List STriple
  | .decl _ => []
  | .rule sel body => specBList m (some (identParse parent sel)) body
  | .media q body =>
      let m' := some (conj m q)
      own m' (parent.getD []) (declsOf body) ++ specUList m' parent body ++ specBList m' parent body
def specBList (m : Option Query) (parent : Option (List Sel)) : List Item → List STriple
  | [] => []
  | i :: is => specB m parent i ++ specBList m parent is
end

/-- a sheet: every top-level item yields its unconditional output, then what bubbled out of it -/
def specSheet : List Item → List STriple
  | [] => []
  | i :: is => (specU none none i ++ specB none none i) ++ specSheet is

/-- the model's observation in the same vocabulary: at most one (already merged) query per rule -/
def toSTriple (t : Triple) : STriple :=
  ⟨match t.medias with | [] => none | q :: _ => some q, t.sels, t.decls⟩

/-! ### vocabulary of the C07 properties -/

mutual
/-- a rule block (not an @media block) all of whose descendants are rule blocks -/
def ruleOnly : OBlock → Bool
  | .mk (.sel _) _ inner => ruleOnlyList inner
  | .mk (.media _) _ _ => false
def ruleOnlyList : List OBlock → Bool
  | [] => true
  | b :: bs => ruleOnly b && ruleOnlyList bs
end

/-- well-formed output block: whatever the block is (a rule or an @media block), everything inside it
    is a rule block, recursively — no @media block occurs strictly inside any block -/
def WF (b : OBlock) : Prop := ruleOnlyList b.inner = true

/-- `Below c b`: the block `c` occurs strictly inside `b`, at any depth -/
inductive Below : OBlock → OBlock → Prop
  | child {c b : OBlock} : c ∈ b.inner → Below c b
  | deeper {c c' b : OBlock} : c' ∈ b.inner → Below c c' → Below c b

/-- conjunction of a list of nested queries, outermost first -/
def conjFrom (m : Option Query) (qs : List Query) : Option Query :=
  qs.foldl (fun m q => some (conj m q)) m
def conjAll (qs : List Query) : Option Query := conjFrom none qs

/-- `q` is the enclosing condition `m` followed by further conjuncts -/
def Extends (m : Option Query) (q : Query) : Prop :=
  match m with
  | none => True
  | some a => ∃ r, q = mergeQ a r

/-- `q :: qs` nested @media blocks (outermost first) around `body` -/
def mediaNest (q : Query) : List Query → List Item → Item
  | [], body => .media q body
  | q' :: qs, body => .media q [mediaNest q' qs body]

def group (ds : List Decl) : List (List Decl) := if ds.isEmpty then [] else [ds]

mutual
/-- the non-empty declaration lists of all rule and @media bodies of an item, depth first -/
def allDeclGroups : Item → List (List Decl)
  | .decl _ => []
  | .rule _ body => group (declsOf body) ++ allDeclGroupsList body
  | .media _ body => group (declsOf body) ++ allDeclGroupsList body
def allDeclGroupsList : List Item → List (List Decl)
  | [] => []
  | i :: is => allDeclGroups i ++ allDeclGroupsList is
end

end Lessm.Media
