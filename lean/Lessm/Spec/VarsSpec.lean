/-
  Declarative semantics of variables (import-free): lexical resolution with hoisted definitions.

  A reference denotes the definition in the nearest enclosing block that defines the name (anywhere
  in that block), else the LAST top-level definition (which may follow the use).  Values are token
  lists that may mention other variables; they are substituted until none remains.
-/
import Lessm.Model.Vars
namespace Lessm.Vars

def blockDefsAux : Frame → List Item → Frame
  | f, [] => f
  | f, .vdef n v :: r => blockDefsAux (f.set n v) r
  | f, _ :: r => blockDefsAux f r

/-- all variable definitions of a body, as one frame (a later definition of a name replaces the earlier) -/
def blockDefs (body : List Item) : Frame := blockDefsAux [] body

mutual
def specItem (fuel : Nat) (env : Scope) (path : List (List String)) :
    Item → Except Err (List (String × List String) × List OutRule)
  | .decl p v => do
      let v' ← expand env fuel v
      pure ([(p, litText v')], [])
  | .vdef _ _ => pure ([], [])
  | .rule sel body => do
      let name ← resolveSel env sel                 -- the selector is read in the enclosing environment
      let path' := path ++ [name]
      let (ds, inner) ← specList fuel (blockDefs body :: env) path' body
      let own : List OutRule := if ds.isEmpty then [] else [⟨path', ds⟩]
      pure ([], own ++ inner)
def specList (fuel : Nat) (env : Scope) (path : List (List String)) :
    List Item → Except Err (List (String × List String) × List OutRule)
  | [] => pure ([], [])
  | i :: is => do
      let (d1, o1) ← specItem fuel env path i
      let (d2, o2) ← specList fuel env path is
      pure (d1 ++ d2, o1 ++ o2)
end

def specCompile (fuel : Nat) (sheet : List Item) : Except Err (List OutRule) := do
  let (_, out) ← specList fuel [blockDefs sheet] [] sheet
  pure out

/-! ### the side condition of the property, as a decidable predicate -/

def refsOf : Value → List String
  | [] => []
  | .ref n :: r => n :: refsOf r
  | .lit _ :: r => refsOf r

def interpsOf : List STok → List String
  | [] => []
  | .interp n :: r => n :: interpsOf r
  | .lit _ :: r => interpsOf r

mutual
/-- every definition `(name, value)` occurring anywhere in the program -/
def allDefs : Item → List (String × Value)
  | .decl _ _ => []
  | .vdef n v => [(n, v)]
  | .rule _ body => allDefsList body
def allDefsList : List Item → List (String × Value)
  | [] => []
  | i :: is => allDefs i ++ allDefsList is
end

mutual
/-- names syntactically used by an item: in declaration values and selector interpolations (not the
    values of definitions: those are reached through `closure`) -/
def usesOf : Item → List String
  | .decl _ v => refsOf v
  | .vdef _ _ => []
  | .rule sel body => interpsOf sel ++ usesOfList body
def usesOfList : List Item → List String
  | [] => []
  | i :: is => usesOf i ++ usesOfList is
end

/-- one step of reachability through the definitions of the program -/
def stepReach (defs : List (String × Value)) (ns : List String) : List String :=
  ns ++ (defs.filter (fun d => ns.contains d.1)).flatMap (fun d => refsOf d.2)

/-- names reachable from `ns` through values of definitions of the whole program (`k` rounds) -/
def closure (defs : List (String × Value)) : Nat → List String → List String
  | 0, ns => ns
  | k + 1, ns => closure defs k (stepReach defs ns)

def definedNames : List Item → List String
  | [] => []
  | .vdef n _ :: r => n :: definedNames r
  | _ :: r => definedNames r

/-- block discipline: inside a block a name is defined at most once, and no name reachable from a use
    in item k is defined later in the same block -/
def blockOKAux (defs : List (String × Value)) : List Item → Bool
  | [] => true
  | i :: rest =>
      (match i with
        | .vdef n _ => !(definedNames rest).contains n
        | _ => (closure defs defs.length (usesOf i)).all (fun n => !(definedNames rest).contains n))
      && blockOKAux defs rest

mutual
def blocksOK (defs : List (String × Value)) : Item → Bool
  | .rule _ body => blockOKAux defs body && blocksOKList defs body
  | _ => true
def blocksOKList (defs : List (String × Value)) : List Item → Bool
  | [] => true
  | i :: is => blocksOK defs i && blocksOKList defs is
end

/-- top-level discipline on the pinned tree (known finding C03-toplevel-redef): a name reachable from a
    use in unit k is not defined both before and after unit k -/
def topOKAux (defs : List (String × Value)) : List Item → List Item → Bool
  | _, [] => true
  | before, i :: rest =>
      (match i with
        | .vdef _ _ => true
        | _ => (closure defs defs.length (usesOf i)).all
                 (fun n => !((definedNames before).contains n && (definedNames rest).contains n)))
      && topOKAux defs (before ++ [i]) rest

/-- no declaration at top level (not CSS), and both disciplines -/
def VarOK (sheet : List Item) : Bool :=
  let defs := allDefsList sheet
  sheet.all (fun i => match i with | .decl _ _ => false | _ => true)
  && topOKAux defs [] sheet && blocksOKList defs sheet

end Lessm.Vars
