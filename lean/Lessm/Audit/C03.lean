import Lessm.Props.C03
open Lessm.Vars
#print axioms C03
#print axioms C03_no_ref
#print axioms C03_no_ref_decl
#print axioms C03_no_ref_compile
#print axioms C03_unknown
#print axioms C03_unknown_sel
#print axioms C03_local
#print axioms C03_innermost
