import Lessm.Props.C20

#print axioms Lessm.Term.C20_var_cycle_err
#print axioms Lessm.Term.C20_var_cycle
#print axioms Lessm.Term.C20_var_mono
#print axioms Lessm.Term.C20_var_acyclic_rounds
#print axioms Lessm.Term.C20_var_ok_closed
#print axioms Lessm.Term.C20_var_ok_closed_process
#print axioms Lessm.Term.C20_import_cycle
#print axioms Lessm.Term.C20_import_cycle_budget
#print axioms Lessm.Term.C20_import_shallow
#print axioms Lessm.Term.C20_import_shallow_compile
#print axioms Lessm.Term.C20_import_inline_fuel
#print axioms Lessm.Term.C20_import_errs_only
