import Lessm.Props.C14

#print axioms Lessm.Imp.C14_paste_spec
#print axioms Lessm.Imp.C14_inline
#print axioms Lessm.Imp.C14_inline_root
#print axioms Lessm.Imp.C14_paste_fuel
#print axioms Lessm.Imp.C14_post
#print axioms Lessm.Imp.C14_post_flat
#print axioms Lessm.Imp.C14_paste_append
#print axioms Lessm.Imp.C14_stmt
#print axioms Lessm.Imp.C14_stmt_load
#print axioms Lessm.Imp.C14_stmt_any
#print axioms Lessm.Imp.C14_errs
#print axioms Lessm.Imp.C14_missing
#print axioms Lessm.Imp.C14_missing_root
#print axioms Lessm.Imp.C14_path_ext
#print axioms Lessm.Imp.C14_path_less_ext
#print axioms Lessm.Imp.C14_path_rel
#print axioms Lessm.Imp.C14_path_split
#print axioms Lessm.Imp.C14_path_dotdot
#print axioms Lessm.Imp.C14_path_kind
#print axioms Lessm.Imp.C14_path
#print axioms Lessm.Imp.C14_twice
