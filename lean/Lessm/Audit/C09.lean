import Lessm.Props.C09
open Lessm.ColorFn
#print axioms C09_roundtrip
#print axioms C09_hls_in_range
#print axioms C09_rgb_in_range
#print axioms C09_identity0
#print axioms C09_spin0
#print axioms C09_spin_wrap
#print axioms C09_grey
#print axioms C09_wf
#print axioms C09_round_near
#print axioms C09_round_near_even
#print axioms C09_ophsl_near
#print axioms C09_clamp01
#print axioms C09_component
#print axioms C09_mix_ends
#print axioms C09_mix_trunc
#print axioms C09_extract_range
