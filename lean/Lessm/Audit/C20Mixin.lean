import Lessm.Props.C20Mixin
open Lessm.Mixin
#print axioms C20_mixin_gas_mono
#print axioms C20_mixin_gas_mono_compile
#print axioms C20_mixin_gas_enough_depth
#print axioms C20_mixin_gas_enough
#print axioms C20_mixin_gas_irrelevant
#print axioms C20_mixin_total
#print axioms C20_mixin_trap
#print axioms C20_mixin_chain
#print axioms C20_mixin_cycle
#print axioms C20_mixin_self_nested
#print axioms C20_mixin_self
#print axioms C20_mixin_self_compile
#print axioms C20_mixin_countdown_items
#print axioms C20_mixin_countdown
#print axioms C20_mixin_countdown_zero
#print axioms C20_mixin_countdown_limit
