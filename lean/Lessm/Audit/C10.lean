import Lessm.Props.C10
#print axioms Lessm.Nest.C10_type
#print axioms Lessm.Nest.C10_flat
#print axioms Lessm.Nest.C10_sel_fix
#print axioms Lessm.Nest.C10_fix
#print axioms Lessm.Nest.C10_out_strong
#print axioms Lessm.Nest.C10_out_canon
#print axioms Lessm.Nest.C10_no_amp_tok
#print axioms Lessm.Nest.C10_idem
#print axioms Lessm.Print.C10_print_clean
#print axioms Lessm.Print.C10_format_clean
#print axioms Lessm.Print.C10_no_char
#print axioms Lessm.Print.C10_no_amp
#print axioms Lessm.Print.C10_no_at
#print axioms Lessm.Print.C10_other_options
#print axioms Lessm.Print.C10_tree_only
