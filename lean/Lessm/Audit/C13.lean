import Lessm.Props.C13
#print axioms Lessm.Pure.pkgOK_none
#print axioms Lessm.Pure.pkgOK_same
#print axioms Lessm.Pure.C13_pure
#print axioms Lessm.Pure.C13_cache
#print axioms Lessm.Pure.C13_history
#print axioms Lessm.Pure.C13_foreign_pkg_counterexample
