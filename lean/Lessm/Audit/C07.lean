import Lessm.Props.C07
open Lessm.Media
#print axioms C07
#print axioms C07_top
#print axioms C07_top_depth
#print axioms C07_WF_iff
#print axioms C07_media_len
#print axioms C07_and
#print axioms C07_and_snoc
#print axioms C07_and_intercalate
#print axioms C07_and_nested
#print axioms C07_and_observed
#print axioms C07_and_observed_rule
#print axioms C07_order
#print axioms C07_order_ne
#print axioms C07_order_top
#print axioms C07_once
#print axioms C07_once_observed
