import Lessm.Props.C16

#print axioms Lessm.Batch.C16_names
#print axioms Lessm.Batch.C16_dry
#print axioms Lessm.Batch.C16_dry_subs
#print axioms Lessm.Batch.C16_dry_files
#print axioms Lessm.Batch.C16_file
#print axioms Lessm.Batch.C16_force
#print axioms Lessm.Batch.C16_missing_or_older
#print axioms Lessm.Batch.C16_newer_untouched
#print axioms Lessm.Batch.C16_untouched
#print axioms Lessm.Batch.C16_iso
#print axioms Lessm.Batch.C16_iso_alone
#print axioms Lessm.Batch.C16_log
#print axioms Lessm.Batch.C16_dir_files
#print axioms Lessm.Batch.C16_rec
#print axioms Lessm.Batch.C16_norec
#print axioms Lessm.Batch.C16_idem
#print axioms Lessm.Batch.C16_idem_any_clock
