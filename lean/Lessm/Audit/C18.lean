import Lessm.Props.C18
open Lessm.Str
#print axioms C18_scan_plain
#print axioms C18_scan_empty
#print axioms C18_scan_parts
#print axioms C18_scan_parts_quote
#print axioms C18_scan_parts_at_counterexample
#print axioms C18_verbatim
#print axioms C18_verbatim_empty
#print axioms C18_subst
#print axioms C18_subst_undefined
#print axioms C18_destring
#print axioms C18_destring_unquoted
#print axioms C18_compose
