import Lessm.Props.C04
open Lessm.Expr
#print axioms C04_table
#print axioms C04_prodprec
#print axioms C04_parse
#print axioms C04_parse_paren
#print axioms C04_eval
#print axioms C04_eval_zero
#print axioms C04
