import Lessm.Props.C04
import Lessm.Props.C04Sign
open Lessm.Expr
#print axioms C04_table
#print axioms C04_prodprec
#print axioms C04_parse
#print axioms C04_parse_paren
#print axioms C04_eval
#print axioms C04_eval_zero
#print axioms C04
#print axioms Lessm.Sign.C04_sign_clean
#print axioms Lessm.Sign.C04_sign_fixed
#print axioms Lessm.Sign.C04_sign_idem
#print axioms Lessm.Sign.C04_sign_conservative
#print axioms Lessm.Sign.C04_sign_value
#print axioms Lessm.Sign.C04_sign_reading
#print axioms Lessm.Sign.C04_sign_local
