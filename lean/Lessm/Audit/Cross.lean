import Lessm.Props.Cross
import Lessm.Props.CrossGuard
import Lessm.Props.CrossAt
import Lessm.Props.CrossPrint
import Lessm.Props.CrossStr
open Lessm.Cross
#print axioms Lessm.Cross.vars_conservative_over_nest
#print axioms Lessm.Cross.media_conservative_over_nest
#print axioms Lessm.Cross.media_spec_conservative_over_nest
#print axioms Lessm.Cross.mixin_conservative_over_vars
#print axioms Lessm.Cross.spec_agreement
#print axioms Lessm.Cross.mixin_conservative_over_nest
#print axioms Lessm.Cross.mixin_guard_is_guard_model
#print axioms Lessm.Cross.mixin_guard_nonnumeric_fails
#print axioms Lessm.Cross.mixin_guard_nonnumeric_chain_fails
#print axioms Lessm.Cross.mixin_arith_is_expr_model
#print axioms Lessm.Cross.mixin_arith_is_expr_model_sub
#print axioms Lessm.Cross.atrule_agrees_with_media
#print axioms Lessm.Cross.atrule_print_is_formatter
#print axioms Lessm.Cross.atrule_format_is_formatter
#print axioms Lessm.Cross.trim_agree
#print axioms Lessm.Cross.str_interp_is_sel_interp
