import Lessm.Props.Cross
open Lessm.Cross
#print axioms Lessm.Cross.vars_conservative_over_nest
#print axioms Lessm.Cross.media_conservative_over_nest
#print axioms Lessm.Cross.media_spec_conservative_over_nest
#print axioms Lessm.Cross.mixin_conservative_over_vars
#print axioms Lessm.Cross.spec_agreement
#print axioms Lessm.Cross.mixin_conservative_over_nest
