import Lessm.Props.C05
open Lessm.Mixin
#print axioms C05_rule_still_emitted
#print axioms C05_silent_and_order
#print axioms C05_def_after_use
#print axioms C05_silent
#print axioms C05_bind_full
#print axioms C05_bind_default
#print axioms C05_bind_defaults_only
#print axioms C05_bind_none_iff
#print axioms C05_arguments
#print axioms C05_frame_names
#print axioms C05_call_unfold
#print axioms C05_call_mixin
#print axioms C05_depth_limit
#print axioms C05_expand_subst
#print axioms C05_inline
#print axioms C05_call_inline
#print axioms C05_closed
