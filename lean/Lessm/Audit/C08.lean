import Lessm.Props.C08
open Lessm.Color
#print axioms C08_fmt
#print axioms C08_idem
#print axioms C08_lit_range
#print axioms C08_chan_add
#print axioms C08_chan_sub
#print axioms C08_chan_mul
#print axioms C08_chan_div
#print axioms C08_arith
#print axioms hex2_roundtrip
