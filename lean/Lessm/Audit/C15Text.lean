import Lessm.Props.C15Text

#print axioms Lessm.Lex0.front_is_filterE
#print axioms Lessm.Lex0.filterFromE_is_filterFrom
#print axioms Lessm.Lex0.front_is_filter
#print axioms Lessm.Lex0.frontEnd_is_filter
#print axioms Lessm.Lex0.rawUnder_fromStep
#print axioms Lessm.Lex0.front_types_eq_of_filter_eq
#print axioms Lessm.Lex0.accepted_text_balanced
#print axioms Lessm.Lex0.accepted_toks_balanced
#print axioms Lessm.Lex0.unbalanced_text_rejected
#print axioms Lessm.Lex0.unbalanced_text_rejected_any
#print axioms Lessm.Lex0.accepts_iff_run
#print axioms Lessm.Lex0.brace_weight_is_count
#print axioms Lessm.Lex0.front_brace_count
#print axioms Lessm.Lex0.front_paren_count
#print axioms Lessm.Lex0.front_istr_count
#print axioms Lessm.Lex0.front_estr_count
#print axioms Lessm.Lex0.illegal_char_never_accepted
#print axioms Lessm.Lex0.stuck_never_accepted
#print axioms Lessm.Lex0.illegal_is_unmatched
#print axioms Lessm.Lex0.front_illegal_is_unmatched
