import Lessm.Props.C06
open Lessm.Guard
#print axioms C06_cmp
#print axioms C06_not
#print axioms C06
#print axioms C06_and
#print axioms C06_or
#print axioms C06_excl
