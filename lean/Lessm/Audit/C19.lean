import Lessm.Props.C19
open Lessm.AtRule
#print axioms C19_item
#print axioms C19_list
#print axioms C19_values
#print axioms C19_stmt
#print axioms C19_identity
#print axioms evalFrames_full
