import Lessm.Props.C01
import Lessm.Props.C01Fmt
open Lessm.Nest
#print axioms C01_rules
#print axioms C01_no_parent
#print axioms C01_simple_selector
#print axioms flatList_plain_body
#print axioms Lessm.IdentFmt.C01_fmt_mark_only
#print axioms Lessm.IdentFmt.C01_fmt_marks
#print axioms Lessm.IdentFmt.C01_fmt_decode
#print axioms Lessm.IdentFmt.C01_fmt_collapse_id
#print axioms Lessm.IdentFmt.C01_fmt_noquote
#print axioms Lessm.IdentFmt.C01_fmt_quoted
