import Lessm.Props.C01
open Lessm.Nest
#print axioms C01_rules
#print axioms C01_no_parent
#print axioms C01_simple_selector
#print axioms flatList_plain_body
