import Lessm.Props.C17
import Lessm.Props.C17Exp
open Lessm.Builtins
#print axioms C17_round_near
#print axioms C17_round_tie
#print axioms C17_round_int
#print axioms C17_round_odd
#print axioms C17_floor
#print axioms C17_ceil
#print axioms C17_apply
#print axioms C17_incdec
#print axioms C17_passthrough
#print axioms Lessm.Num.C17_exp_partition
#print axioms Lessm.Num.C17_exp_conservative
#print axioms Lessm.Num.C17_exp_nil
#print axioms Lessm.Num.C17_exp_unit_no_exp
#print axioms Lessm.Num.C17_exp_e_letter
#print axioms Lessm.Num.C17_exp_em
#print axioms Lessm.Num.C17_exp_reads
#print axioms Lessm.Num.C17_exp_value_neg
#print axioms Lessm.Num.C17_exp_value_pos
#print axioms Lessm.Num.C17_exp_value_nosign
