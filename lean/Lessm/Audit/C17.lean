import Lessm.Props.C17
open Lessm.Builtins
#print axioms C17_round_near
#print axioms C17_round_tie
#print axioms C17_round_int
#print axioms C17_round_odd
#print axioms C17_floor
#print axioms C17_ceil
#print axioms C17_apply
#print axioms C17_incdec
#print axioms C17_passthrough
