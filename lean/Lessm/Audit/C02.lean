import Lessm.Props.C02
open Lessm.Nest
#print axioms C02_stack
#print axioms C02
#print axioms C02_sheet
#print axioms C02_once_dfs
#print axioms C02_count
#print axioms C02_amp
#print axioms C02_desc
#print axioms C02_comb
#print axioms tuples_mem
#print axioms tuples_length
