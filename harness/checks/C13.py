"""
C13  Compilation is a pure function of source text and options.

Proof side : lean/Lessm/Props/C13.lean about lean/Lessm/Model/Purity.lean: a system of any number of processes, each
             constructing parsers (reading the package table module, writing <tmp>/yacctab.py) and compiling, under any
             interleaving, with crash points and any initial table file.  C13_pure / C13_cache / C13_history: every output is
             `run gen src opt`, provided the package table module is absent or carries this grammar's tables (PkgOK).
Tie        : the model's footprint is checked against the running code: (1) strace of a real history with TMPDIR and cwd on a
             scratch directory holding a foreign table file: the only access to that file is open(O_WRONLY|O_CREAT|O_TRUNC),
             once per parser construction, nothing under the scratch directory is opened for reading; (2) the package table
             module lesscpy.lessc.yacctab is not importable (PkgOK by pkgOK_none); (3) the outputs of real histories equal the
             pure function, i.e. what the model's theorem says they are.
Oracle     : reference = each (source, options) compiled alone in a fresh interpreter.  Every call of every history (valid and
             failing programs mixed, stream or file), under several hash seeds, in threads, and in up to 16 concurrent
             processes sharing a temporary directory whose table file is absent / left by an earlier run / truncated at many
             prefixes / foreign / a directory / being killed mid-write, must return byte-for-byte the reference (or the same
             exception class and message).
"""
import json
import os
import random
import re
import shutil
import signal
import subprocess
import tempfile
import time

import common as C

PROP = 'C13'
THEOREMS = ['Lessm.Pure.pkgOK_none', 'Lessm.Pure.pkgOK_same', 'Lessm.Pure.C13_pure', 'Lessm.Pure.C13_cache', 'Lessm.Pure.C13_history',
            'Lessm.Pure.C13_foreign_pkg_counterexample']
WORKER = os.path.join(C.VERIF, 'harness', 'workers', 'c13_worker.py')

VALID = [
    '.a{top:1px}',
    '@c: red;\n.a{color:@c; .b{width:1px+1}}',
    '.m(){top:1px}\n.z{.m;}',
    '.m(@x: 4px){right:@x}\n.n{.m;}\n.o{.m(9px);}',
    '@a: "foo";\n.x{content:"@{a}"; width:@a; c:~"@{a}"}',
    '@n: b;\n.a-@{n}{top:0}\n.x{@{n}order:1px}',
    '.g(@a) when (@a > 1){top:@a}\n.h{.g(2); .g(0)}',
    '@media screen and (min-width:10px){.q{top:0; .r{left:0}}}',
    '.a,.b{@media print{color:blue}}',
    '@keyframes spin{from{top:0} to{top:1px}}',
    '.l(@i) when (@i > 0){w:@i; .l(@i - 1);}\n.a{.l(5);}',
    '.a{color:#abc; background:#fff + #111; border:darken(#888, 10%)}',
    '.a{width:(2px*3); height:-(1px - 3); margin:round(1.5px) percentage(0.5)}',
    '.a{&:hover{top:0} &-x{top:1px} .b &{top:2px}}',
    '@font-face {font-family:x; src:url("a.woff")}',
    '@import "x.css";\n.a{top:0}',
    '.a{top:0}\n/* c */\n// d\n.b{left:0}',
    '.m(){@v: 3px; top:@v}\n.a{@v: 1px; .m; left:@v}',
    '@w: 2px;\n@z: @w;\n.u{width:@z * 2}',
    '.box{.inner{color:red}}\n.r{.box;}\n.s{.box .inner;}',
    '.a{filter:alpha(opacity=50); b:e("x"); c:%("%d", 1)}',
    '',
    '.m(){.child{top:0}}\n.m();',                                   # mixin with a nested rule, called at the top level
    '.m(@n){.c-@{n}{w:@n}}\n.m(1);\n@media print{.m(2);}',
    '.p{.q{.r{top:0}}}\n.s{.p .q;}',
    '@v: 1px;\n.o{.i{width:@v; .j{height:@v * 2}}}',
]
INVALID = [
    '.a{top:1px',                          # unclosed block
    '.a{top:@nope}',                       # unknown variable
    '.m(){.m();}\n.a{.m();}',              # runaway recursion
    '@a: @b;\n@b: @a;\n.x{y:@a}',          # variable cycle
    '.a{color: red;;;}}\n.b{top:0}',       # stray brace
    '@media screen color: red; }',         # malformed media
    '.a{b:1}',                             # property name that is an element
    '.a{width:"unclosed}',                 # open string
    '.a{top:(1px}',                        # open parenthesis
    '@import "nofile.less";\n.a{top:0}',   # missing import (stream: relative to cwd)
    '.outer{.inner{width:@missing}}',      # fails while a nested block is being evaluated
    '.outer{.inner{.deep{.m(1);}}}\n.m(@a) when (@a > @nolimit){top:0}',
    '.o{.i{width:(1px + @q)}}\n.z{top:0}',
    '@media print{.o{.i{color:darken(@nocolor, 10%)}}}',
    '.o{.i{.l(70);}}\n.l(@i) when (@i > 0){w:@i; .l(@i - 1);}',   # depth limit reached inside nested blocks
]
OPTS = [dict(minify=True), dict(minify=False), dict(xminify=True), dict(minify=False, tabs=True), dict(minify=False, spaces=4)]


def run_worker(history, env_extra=None, cwd=None, threads=1, scratch=None, timeout=600, wait=True):
    env = dict(os.environ)
    env.pop('PYTHONHASHSEED', None)
    env.update(env_extra or {})
    job = {'repo': C.REPO, 'history': history, 'threads': threads, 'scratch': scratch or tempfile.gettempdir()}
    p = subprocess.Popen([C.PY, '-W', 'ignore', WORKER], stdin=subprocess.PIPE, stdout=subprocess.PIPE, stderr=subprocess.PIPE,
                         text=True, env=env, cwd=cwd)
    p.stdin.write(json.dumps(job))
    p.stdin.close()
    if not wait:
        return p
    return finish_worker(p, timeout)


def finish_worker(p, timeout=600):
    try:
        out = p.stdout.read()
        err = p.stderr.read()
        p.wait(timeout=timeout)
    except subprocess.TimeoutExpired:
        p.kill()
        return {'failed': 'timeout'}
    try:
        return json.loads(out)
    except Exception:
        return {'failed': 'exit %s: %s' % (p.returncode, err[-500:])}


def norm(r):
    """error texts name the input: '(stream)'; a file name was mapped to that by the worker"""
    return [r[0], r[1]]


def reference_job(item):
    src, opt = item
    d = tempfile.mkdtemp(prefix='c13ref-')
    try:
        r = run_worker([[src, opt, 'stream']], env_extra={'TMPDIR': d}, cwd=d, scratch=d)
    finally:
        shutil.rmtree(d, ignore_errors=True)
    return r


def make_history(rng, pool, n):
    return [[src, opt, rng.choice(['stream', 'stream', 'file'])] for src, opt in (rng.choice(pool) for _ in range(n))]


def history_job(job):
    history, env_extra, threads, tabstate = job
    d = tempfile.mkdtemp(prefix='c13h-')
    try:
        prepare_tab(d, tabstate)
        return run_worker(history, env_extra=dict(env_extra, TMPDIR=d), cwd=d, threads=threads, scratch=d)
    finally:
        shutil.rmtree(d, ignore_errors=True)


_WARM = {}


def warm_table():
    """the table file a run of the current tree leaves behind"""
    if 'text' not in _WARM:
        d = tempfile.mkdtemp(prefix='c13w-')
        try:
            run_worker([['.a{top:0}', dict(minify=True), 'stream']], env_extra={'TMPDIR': d}, cwd=d, scratch=d)
            p = os.path.join(d, 'yacctab.py')
            _WARM['text'] = open(p).read() if os.path.exists(p) else ''
        finally:
            shutil.rmtree(d, ignore_errors=True)
    return _WARM['text']


FOREIGN_TAB = ("# yacctab.py\n_tabversion = '3.10'\n_lr_method = 'LALR'\n_lr_signature = 'NUMBER PLUS'\n"
               "_lr_action_items = {'NUMBER':([0,],[1,]),'$end':([1,],[0,])}\n_lr_action = {}\n"
               "for _k, _v in _lr_action_items.items():\n   for _x,_y in zip(_v[0],_v[1]):\n      if not _x in _lr_action:  _lr_action[_x] = {}\n      _lr_action[_x][_k] = _y\n"
               "del _lr_action_items\n_lr_goto = {}\n_lr_productions = [(\"S' -> e\",\"S'\",1,None,None,None)]\n")


def prepare_tab(d, state):
    p = os.path.join(d, 'yacctab.py')
    if state == 'cold':
        return
    if state == 'warm':
        open(p, 'w').write(warm_table())
    elif state.startswith('trunc:'):
        k = int(state.split(':')[1])
        open(p, 'w').write(warm_table()[:k])
    elif state == 'foreign':
        open(p, 'w').write(FOREIGN_TAB)
    elif state == 'garbage':
        open(p, 'wb').write(bytes(range(256)) * 10)
    elif state == 'directory':
        os.mkdir(p)
    elif state == 'pyc-trap':
        open(p, 'w').write('raise SystemExit("yacctab.py of the temporary directory was imported")\n')


def concurrent_round(rng, pool, nproc, tabstate, kill_some):
    """nproc workers started together on one scratch directory (TMPDIR and cwd); some may be killed while they run"""
    d = tempfile.mkdtemp(prefix='c13c-')
    try:
        prepare_tab(d, tabstate)
        hists = [make_history(rng, pool, rng.randrange(3, 9)) for _ in range(nproc)]
        procs = [run_worker(h, env_extra={'TMPDIR': d, 'PYTHONHASHSEED': str(rng.randrange(0, 1000))}, cwd=d, scratch=d, wait=False) for h in hists]
        killed = set()
        if kill_some:
            time.sleep(rng.uniform(0.15, 0.6))
            for i in rng.sample(range(nproc), max(1, nproc // 4)):
                try:
                    procs[i].send_signal(signal.SIGKILL)
                    killed.add(i)
                except Exception:
                    pass
            # late starters see whatever the killed writers left behind
            late = [make_history(rng, pool, 3) for _ in range(2)]
            hists += late
            procs += [run_worker(h, env_extra={'TMPDIR': d}, cwd=d, scratch=d, wait=False) for h in late]
        outs = [finish_worker(p) for p in procs]
        left = None
        p = os.path.join(d, 'yacctab.py')
        if os.path.isfile(p):
            left = len(open(p, 'rb').read())
        return hists, outs, killed, left
    finally:
        shutil.rmtree(d, ignore_errors=True)


def footprint(chk, pool, rng):
    """strace a real history: which files under the scratch directory are opened, and how"""
    d = tempfile.mkdtemp(prefix='c13f-')
    info = {'available': False}
    try:
        prepare_tab(d, 'pyc-trap')
        hist = make_history(rng, pool, 4)
        hist = [[s, o, 'stream'] for s, o, _m in hist]
        log = os.path.join(d, 'strace.log')
        job = {'repo': C.REPO, 'history': hist, 'threads': 1, 'scratch': d}
        env = dict(os.environ, TMPDIR=d)
        try:
            r = subprocess.run(['strace', '-f', '-e', 'trace=open,openat,creat,rename,unlink,unlinkat', '-o', log, C.PY, '-W', 'ignore', WORKER],
                               input=json.dumps(job), capture_output=True, text=True, env=env, cwd=d, timeout=600)
        except (OSError, subprocess.TimeoutExpired) as e:
            info['error'] = repr(e)
            return info, []
        if r.returncode != 0 or not os.path.exists(log):
            info['error'] = 'strace exit %s: %s' % (r.returncode, r.stderr[-300:])
            return info, []
        info['available'] = True
        opens, problems = [], []
        for line in open(log):
            m = re.search(r'open(?:at)?\((?:AT_FDCWD, )?"([^"]+)", ([A-Z_|]+)', line)
            if not m:
                continue
            path, flags = m.group(1), m.group(2)
            ap = os.path.normpath(os.path.join(d, path))
            if not ap.startswith(d) or ap == log:
                continue
            rel = os.path.relpath(ap, d)
            opens.append((rel, flags))
            if rel == 'yacctab.py':
                if 'O_WRONLY' not in flags or 'O_TRUNC' not in flags:
                    problems.append('the table file in the temporary directory is opened with %s' % flags)
            elif 'O_DIRECTORY' in flags or rel == '.':
                continue
            elif rel.startswith('in') and rel.endswith('.less'):
                continue
            elif 'O_RDONLY' in flags and '__pycache__' not in rel:
                problems.append('%s under the temporary directory is opened for reading' % rel)
        nwrites = sum(1 for rel, fl in opens if rel == 'yacctab.py')
        info['opens_under_scratch'] = sorted(set(opens))[:20]
        info['table_file_writes'] = nwrites
        info['parser_constructions'] = len(hist)
        try:
            res = json.loads(r.stdout)
            info['yacctab_importable'] = res.get('yacctab_importable')
            if res.get('yacctab_importable'):
                problems.append('lesscpy.lessc.yacctab is importable: hypothesis PkgOK of the theorems is not established')
        except Exception:
            problems.append('traced worker did not finish: %s' % r.stderr[-300:])
        if nwrites != len(hist):
            problems.append('the model writes the table file once per parser construction (%d), the code opened it %d times' % (len(hist), nwrites))
        return info, problems
    finally:
        shutil.rmtree(d, ignore_errors=True)


def run(tier):
    chk = C.Check(PROP, tier, 'proof')
    rng = random.Random(C.seed() * 15485863 + 13)
    build = C.lean_build(PROP, need_driver=False)
    missing = chk.set_proof(build, THEOREMS, 'cd lean && lake build Lessm.Props.C13 Lessm.Audit.C13 && lake env lean Lessm/Audit/C13.lean')
    chk.cov['trusted_base'] = C.TRUSTED_BASE + [
        'C13: the theorems are non-interference statements about a model of what compilations share (package table module, table file in '
        'the temporary directory); that the code shares nothing else (no module-level mutable state, no caches) is established by the '
        'histories, seeds, threads and concurrent runs below, not by proof; the operating system is trusted to make open/write/close of '
        'different processes interleave as the model allows']
    pool = [(s, o) for s in VALID + INVALID for o in (OPTS if s in VALID[:8] else OPTS[:2])]
    # every entry of the word tables the lexer builds its alternations from (media features / types, incl. names that are prefixes of others)
    C.use_repo()
    from lesscpy.lib import css as _css
    for f in list(_css.media_features):
        pool.append(('@media screen and (%s:2){.x{top:0}}' % f, OPTS[0]))
    for t in list(_css.media_types):
        pool.append(('@media %s{.x{top:0}}\n@import "a.css" %s;' % (t, t), OPTS[0]))
    # reference: each (source, options) alone in a fresh interpreter
    refs = C.pool().map(reference_job, pool, chunksize=1)
    ref = {}
    for (s, o), r in zip(pool, refs):
        if 'results' not in r:
            chk.violation({'kind': 'reference', 'source': s, 'options': o, 'problem': 'fresh interpreter did not finish: %r' % r})
            return chk.finish()
        ref[json.dumps([s, o], sort_keys=True)] = norm(r['results'][0])
    bad_kinds = sorted(set(v[0] for v in ref.values() if v[0] not in ('ok', 'err:CompilationError')))
    dist = {'pool': len(pool), 'reference_ok': sum(v[0] == 'ok' for v in ref.values()), 'reference_error': sum(v[0] != 'ok' for v in ref.values()),
            'non_compilation_errors_in_reference': bad_kinds}
    problems = 0
    disagreements = []

    def judge(label, hist, out, extra=None):
        nonlocal problems
        if 'results' not in out:
            chk.violation(dict({'kind': 'history', 'setting': label, 'history': hist, 'problem': 'the process did not finish: %r' % out}, **(extra or {})))
            problems += 1
            return
        for i, ((s, o, mode), r) in enumerate(zip(hist, out['results'])):
            chk.count((label, s, json.dumps(o, sort_keys=True), mode, i))
            want = ref[json.dumps([s, o], sort_keys=True)]
            if r is None or norm(r) != want:
                # shrink: the shortest prefix + this call that still differs is found by replaying prefixes
                chk.violation(dict({'kind': 'history', 'setting': label, 'history': hist[:i + 1], 'call': i, 'mode': mode, 'source': s, 'options': o,
                                    'got': r, 'alone_in_a_fresh_process': want,
                                    'problem': 'call %d of the history returned something else than the same call alone in a fresh process' % i}, **(extra or {})))
                problems += 1
                return
    # (a) histories in one process, several hash seeds, stream and file
    nh = 24 if tier == 'quick' else 300
    seeds = ['0', '1', '4711', 'random']
    jobs = []
    for k in range(nh):
        h = make_history(rng, pool, rng.randrange(6, 30))
        jobs.append((h, {'PYTHONHASHSEED': seeds[k % len(seeds)]}, 1, rng.choice(['cold', 'warm', 'foreign', 'trunc:100'])))
    # (b) threads
    nt = 8 if tier == 'quick' else 60
    for k in range(nt):
        h = make_history(rng, pool, rng.randrange(8, 24))
        jobs.append((h, {}, rng.choice([2, 4, 8]), 'cold'))
    outs = C.pool().map(history_job, jobs, chunksize=1)
    for (h, env, threads, tab), out in zip(jobs, outs):
        judge('one process, %d thread(s), hash seed %s, table file %s' % (threads, env.get('PYTHONHASHSEED', '-'), tab), h, out,
              {'env': env, 'threads': threads, 'table_file': tab})
        if problems > 4:
            break
    dist['histories'] = nh
    dist['threaded_histories'] = nt
    # (a') the whole pool, once, under each of several hash seeds (a set-typed table changes its iteration order with the seed)
    sweep_seeds = ['0', '1', '2', '3', '5', '8'] if tier == 'quick' else [str(k) for k in range(24)]
    whole = [[s_, o_, 'stream'] for s_, o_ in pool]
    sjobs = [(whole, {'PYTHONHASHSEED': sd}, 1, 'cold') for sd in sweep_seeds]
    souts = C.pool().map(history_job, sjobs, chunksize=1)
    for (h, env, threads, tab), out in zip(sjobs, souts):
        if problems > 4:
            break
        judge('the whole pool in one process under hash seed %s' % env['PYTHONHASHSEED'], h, out, {'env': env, 'threads': 1, 'table_file': tab})
    dist['hash_seed_sweeps'] = len(sweep_seeds)
    # (c) concurrent processes on a shared temporary directory
    warm = warm_table()
    cuts = [0, 1, 17, 100, len(warm) // 3, len(warm) // 2, len(warm) - 1] if tier == 'quick' else sorted(set([0, 1, 2, 17, 64, 100, 1000, len(warm) - 1] + [rng.randrange(len(warm)) for _ in range(40)]))
    states = ['cold', 'warm', 'foreign', 'garbage', 'directory'] + ['trunc:%d' % k for k in cuts]
    rounds = 0
    for st in states:
        for kill in ((False, True) if st in ('cold', 'warm') or tier != 'quick' else (False,)):
            if problems > 4:
                break
            nproc = 16 if st in ('cold', 'warm', 'foreign') else 6
            hists, outs2, killed, left = concurrent_round(rng, pool, nproc, st, kill)
            rounds += 1
            for i, (h, out) in enumerate(zip(hists, outs2)):
                if i in killed:
                    continue
                judge('%d concurrent processes, table file %s%s' % (nproc, st, ', some killed while running' if kill else ''), h, out,
                      {'table_file': st, 'killed': sorted(killed), 'table_file_bytes_afterwards': left})
    dist['concurrent_rounds'] = rounds
    dist['table_file_states'] = states
    # (d) the model's footprint against the running code
    info, fp_problems = footprint(chk, pool, rng)
    chk.cov['footprint'] = info
    if not info.get('available'):
        chk.assumptions.append('strace could not be used here (%s): the read/write footprint of a construction was not observed in this run' % info.get('error'))
    for pb in fp_problems:
        disagreements.append({'footprint': pb, 'opens': info.get('opens_under_scratch')})
    chk.cov['rule'] = ('pool = %d (source, options) pairs (%d valid programs x up to 5 option sets, %d failing programs); reference = each alone in a fresh '
                       'interpreter; histories of 6-30 calls (stream / file), hash seeds %s, threads 2-8, %d rounds of 6-16 concurrent processes on one '
                       'temporary directory with the table file in the states listed under distribution; distinct by (setting, call); every call counts'
                       % (len(pool), len(VALID), len(INVALID), seeds, rounds))
    chk.cov['distribution'] = dist
    chk.cov['disagreements_checked'] = 1
    chk.cov['disagreements_found'] = len(disagreements)
    chk.cov['exhaustive'] = False
    chk.sample({'history_of': len(jobs[0][0]), 'first_calls': [c[0][:40] for c in jobs[0][0][:4]], 'results': outs[0].get('results', [])[:2]})
    if os.environ.get('VERIF_DEV_SKIP_LEAN') == '1':
        print('DEV', json.dumps(dist)[:1500], json.dumps(info)[:1500], disagreements[:3])
    C.tie_verdict(chk, build, missing, disagreements, 'Lessm.Pure (footprint of a parser construction) vs ply.yacc / parser.py',
                  'histories, hash seeds, threads and concurrent processes on shared temporary directories all returned the reference results')
    return chk.finish()


def replay(path):
    d = json.load(open(path))
    if d.get('kind') != 'history':
        print('replay: nothing executable in', path)
        return 2
    hist = d['history']
    out = history_job((hist, d.get('env') or {}, d.get('threads', 1), d.get('table_file', 'cold')))
    i = d.get('call', len(hist) - 1)
    alone = reference_job((d['source'], d['options']))
    print('history of', len(hist), 'calls; call', i, 'source', repr(d['source'])[:200], 'options', d['options'])
    print('in history :', out.get('results', [None] * (i + 1))[i] if 'results' in out else out)
    print('alone      :', alone.get('results'))
    if 'results' not in out or 'results' not in alone or norm(out['results'][i]) != norm(alone['results'][0]):
        print('VIOLATION property=%s replay=%s' % (PROP, path))
        return 1
    print('replay: property holds on this history now')
    return 0
