"""
C01  Plain CSS passes through with its meaning unchanged.

Proof side : lean/Lessm/Props/C01.lean (C01_rules: a sheet of plain rules compiles to exactly those rules, once each, in order;
             C01_simple_selector / C01_no_parent), resting on C02 (flattening), C08 (colour normalisation), C11 (tokens
             printed verbatim under every option vector) and C12 (the whitespace filter on the regenerated table).
Tie        : (i) Lessm.Nest.compileSheet on the token lists of generated plain sheets against the real output;
             (ii) Lessm.Print.format round trip: the real output of a plain sheet, parsed, printed by the model under the same
             options, equals the real output (C11's tie, re-run here on plain sheets with random option vectors).
Oracle     : the source is plain CSS, so the SAME canonicaliser is applied to source and output: same rules in the same order,
             same selector lists (descendant spaces kept), same declarations in order with the same value tokens; hex colours
             are compared after the documented normalisation.  Catalogue: all ordered pairs of compound kinds x 4 combinators
             (with / without optional spaces), all ordered pairs of value-component kinds x {space, comma}, !important
             spellings, media query shapes, option vectors; random sheets.
"""
import itertools
import json
import random
import re

import common as C
import canon

PROP = 'C01'
THEOREMS = ['Lessm.Nest.C01_rules', 'Lessm.Nest.C01_no_parent', 'Lessm.Nest.C01_simple_selector', 'Lessm.Nest.flatList_plain_body'] + [
    'Lessm.IdentFmt.' + t for t in ('C01_fmt_mark_only', 'C01_fmt_marks', 'C01_fmt_decode', 'C01_fmt_collapse_id', 'C01_fmt_noquote', 'C01_fmt_quoted')]

# compound selector kinds (no `*` joined to another simple selector: open known finding; ids of 3/6 hex digits are kept as written since the fix of C01-hex-id)
COMPOUNDS = {
    'element': ['div', 'p', 'span', 'ul', 'li', 'a', 'h1', 'table', 'td'],
    'class': ['.a', '.b-c', '.k_2', '.x1'],
    'id': ['#i', '#main', '#n-1', '#abcd', '#abc', '#fed', '#AbC', '#abcdef', '#012', '#00ff00'],
    'elclass': ['div.a', 'p.q.r', 'li.x1'],
    'pseudo': ['a:hover', '.a:first-child', 'li:last-child', '.b::before', 'p::first-line', 'a:link'],
    'attr': ['a[href]', '.a[x="1"]', 'input[type=text]', 'a[href^="http"]', '[data-x]',
             # '?' inside the string: Identifier encodes combinators as '?>?' internally (seeded C01-4; repaired defect C01-qmark-pair)
             'a[href*="?page="]', 'a[href="x?y?z"]', '[t="?>?"]', 'a[h="?a?"]', 'a[href$="?"]', 'a[href="/s?q=a+b&r=~c"]',
             # blanks inside the string are part of the attribute value (repaired defect C01-attr-blanks)
             'a[t="a  b"]', "[u='x   y  z']"],
    'func-pseudo': ['li:nth-child(2n+1)', '.a:not(.b)', 'p:lang(en)'],
    'universal': ['*'],
}
COMBS = [' ', '>', '+', '~']
VALUES = {
    'ident': ['red', 'solid', 'auto', 'none', 'inherit', 'bold', 'ease-in-out', 'x-y_z'],
    'number': ['0', '10', '1px', '2.5em', '-3px', '.5', '50%', '010px', '1.50em', '100ms', '-0.25'],
    'string': ['"a b"', "'c;d'", '"{e}"', '""', '"x/*y*/"'],
    'color': ['#aabbcc', '#ABC', '#AbCdEf', '#000', '#123456'],
    'url': ['url("i.png")', "url('j k.gif')", 'url("http://h/p?q=1")'],
    # (functions other than quoted url() are not part of the plain fragment the property lists; they are C17's subject)
    # value words that the lexer's own tables classify as element names or property names (filled in by table_words():
    # the token class of an identifier depends on lesscpy/lib/dom.py, lesscpy/lib/css.py and the in_property_decl flag: seeded C01-3)
    'elword': ['center', 'small', 'table'],
    'propword': ['width', 'opacity', 'color'],
}


def table_words(rng):
    """draw the 'elword' / 'propword' pools from the tables of the source tree under test"""
    import sys
    sys.path.insert(0, C.REPO)
    try:
        from lesscpy.lib import dom, css
        els = sorted(set(e for e in dom.elements if re.match(r'^[a-z][a-z0-9]*$', e)))
        prs = sorted(set(p for p in css.properties if re.match(r'^[a-z][a-z-]*$', p)))
        VALUES['elword'] = ['center', 'small', 'table'] + rng.sample(els, min(12, len(els)))
        VALUES['propword'] = ['width', 'opacity', 'color'] + rng.sample(prs, min(12, len(prs)))
    except Exception:  # noqa  (tables moved: the fixed words remain)
        pass
    finally:
        sys.path.pop(0)
PROPS = ['color', 'background', 'margin', 'border', 'font-family', 'content', 'transition', 'top', 'width', '-webkit-box-shadow', '-moz-x', 'z-index', 'my-own-prop',
         'place-items', 'background-position', 'will-change', 'grid-area']
MEDIA = ['print', 'screen', 'screen and (min-width:100px)', '(max-width:50em)', 'only screen and (orientation:landscape)', 'not print',
         '(min-width:10px) and (max-width:20px)', 'print, screen', 'tv and (color)']


def norm_colors(v):
    def f(m):
        d = m.group(1).lower()
        if len(d) == 3:
            d = ''.join(ch * 2 for ch in d)
        return '#' + d
    return canon._norm_outside_strings(v, lambda t: re.sub(r'#([0-9a-fA-F]{6}|[0-9a-fA-F]{3})(?![0-9a-zA-Z_-])', f, t))


def observe(text, normalise_colors):
    out = []
    for ctx, sels, decls in canon.rules(text):
        ds = []
        for p, v, imp in decls:
            v = re.sub(r'"\s+(?=[^,])', '" ', v)
            v = canon._norm_outside_strings(v, lambda t: re.sub(r'\s*,\s*', ',', re.sub(r'\s+', ' ', t)))
            # the space after a string token is optional for the CSS tokenisation: compare without it
            v = re.sub(r'(["\'])\s+(?=[^\s])', r'\1', v) if False else v
            if normalise_colors:
                v = norm_colors(v)
            ds.append((p, strip_after_strings(v), imp))
        out.append((tuple(re.sub(r'\s+', '', c) for c in ctx), sels, ds))
    return out


def strip_after_strings(v):
    """`"a" b` / `"a"b` and `f(x) y` / `f(x)y` are the same CSS token sequences: drop whitespace directly after a string
    token and after a closing parenthesis (whitespace differences are permitted by the property)"""
    v = canon._norm_outside_strings(v, lambda t: re.sub(r'\)\s+', ')', t))
    out, i = [], 0
    while i < len(v):
        if v[i] in '"\'':
            j = canon._scan_string(v, i)
            out.append(v[i:j])
            i = j
            while i < len(v) and v[i] == ' ':
                i += 1
        else:
            out.append(v[i])
            i += 1
    return ''.join(out)


def rand_selector(rng):
    n = rng.choice([1, 1, 2, 2, 3, 4])
    parts = []
    for k in range(n):
        kind = rng.choice(list(COMPOUNDS))
        c = rng.choice(COMPOUNDS[kind])
        if c == '*' and not (k == 0 or k == n - 1):
            c = 'div'
        if k:
            comb = rng.choice(COMBS)
            if parts[-1] == '*' and comb == ' ' and k != 1:
                comb = '>'
            parts.append(comb)
        parts.append(c)
    # `*` in the middle followed by a descendant space is a syntax error (known finding): only first or last
    return parts


def sel_text(parts, rng):
    s = ''
    for p in parts:
        if p in ('>', '+', '~'):
            s += rng.choice(['', ' ']) + p + rng.choice(['', ' '])
        else:
            s += p
    return s


def rand_value(rng):
    n = rng.choice([1, 1, 2, 3, 4])
    comps = []
    for k in range(n):
        kind = rng.choice(list(VALUES))
        comps.append(rng.choice(VALUES[kind]))
    s = comps[0]
    for c in comps[1:]:
        s += rng.choice([' ', ' ', ', ', ',']) + c
    return s


def rand_rule(rng, ind=''):
    sels = [sel_text(rand_selector(rng), rng) for _ in range(rng.choice([1, 1, 2, 3]))]
    decls = []
    for _ in range(rng.randrange(1, 5)):
        imp = rng.choice(['', '', '', ' !important', '!important', ' ! important'])
        decls.append('%s%s:%s%s%s' % (ind + '  ', rng.choice(PROPS), rng.choice(['', ' ']), rand_value(rng), imp))
    last = rng.choice([';', ''])
    return '%s%s%s{\n%s%s\n%s}\n' % (ind, rng.choice([', ', ',', ',\n' + ind]).join(sels), rng.choice(['', ' ']), ';\n'.join(decls), last, ind)


def rand_sheet(rng):
    s = ''
    for _ in range(rng.randrange(1, 8)):
        if rng.random() < 0.2:
            s += '@media %s {\n%s}\n' % (rng.choice(MEDIA), ''.join(rand_rule(rng, '  ') for _ in range(rng.randrange(1, 4))))
        else:
            s += rand_rule(rng)
    return s


def identfmt_correspondence(rng, n):
    """Identifier.fmt (as repaired: only the combinator marks are decoded, blanks inside quoted pieces survive) against
    Lessm.IdentFmt.fmt on the same token lists, in-process -> (count, disagreements)"""
    import sys
    sys.path.insert(0, C.REPO)
    try:
        from lesscpy.plib.identifier import Identifier
    finally:
        sys.path.pop(0)
    toks = ['a', '.b', '#i', ' ', '  ', '?>?', '?+?', '?~?', '?a?', '?', '??', '?>', '>?', '[t="x  y"]', "[u='p   q']", '[h="?>?"]', '[h="x?y?z"]',
            ':hover', '*', '* ', '"', "'", '[k="a\'  b"]', 'li', '   ', '$', '$$', ',', '[w="  "]', '\t', 'b  c', "it's  ok", 'd"  e']
    cases = []
    for _ in range(n):
        parsed = [[rng.choice(toks) for _ in range(rng.randrange(0, 7))] for _ in range(rng.randrange(1, 4))]
        ws, nl = rng.choice([('', ''), (' ', '\n'), (' ', '')])
        cases.append((ws, nl, parsed))
    try:
        model = C.Driver().run([('c01.identfmt', json.dumps({'ws': ws, 'nl': nl, 'parsed': parsed})) for ws, nl, parsed in cases])
    except Exception as e:  # noqa
        return n, [('driver', repr(e), None)]
    dis = []
    for (ws, nl, parsed), m in zip(cases, model):
        ident = Identifier([], 0)
        ident.parsed = parsed
        try:
            real = ident.fmt({'ws': ws, 'nl': nl})
        except Exception as e:  # noqa
            real = 'EXC %r' % e
        try:
            m = json.loads(m)     # the driver answers with a JSON string (escapes differ between the two encoders)
        except Exception:  # noqa
            pass
        if real != m:
            dis.append((json.dumps([ws, nl, parsed]), m, real))
    return n, dis


def catalogue(rng):
    out = []
    kinds = list(COMPOUNDS)
    for k1, k2 in itertools.product(kinds, repeat=2):
        for comb in COMBS:
            a, b = COMPOUNDS[k1][0], COMPOUNDS[k2][0]
            if a == '*' and b == '*' and comb == ' ':
                pass
            for spaced in (False, True):
                if comb == ' ':
                    sel = a + ' ' + b
                    if spaced:
                        continue
                else:
                    sel = a + (' %s ' % comb if spaced else comb) + b
                out.append('%s{color:red}\n' % sel)
    vk = list(VALUES)
    for k1, k2 in itertools.product(vk, repeat=2):
        for sep in (' ', ',', ', '):
            out.append('.a{margin:%s%s%s;top:0}\n' % (VALUES[k1][0], sep, VALUES[k2][1 % len(VALUES[k2])]))
    for imp in ['!important', ' !important', ' ! important', '  !important ']:
        out.append('.a{color:red%s;top:0%s}\n' % (imp, imp))
    for m in MEDIA:
        out.append('@media %s{.a,.b{color:red;top:0}p{margin:0}}\n.c{top:1px}\n' % m)
    return out


OPTS = [dict(minify=True), dict(minify=False), dict(xminify=True), dict(tabs=True), dict(spaces=4), dict(spaces=0), dict(minify=True, tabs=True)]


def run(tier):
    chk = C.Check(PROP, tier, 'proof')
    rng = random.Random(C.seed() * 256203221 + 1)
    build = C.lean_build(PROP)
    missing = chk.set_proof(build, THEOREMS, 'cd lean && lake build Lessm.Props.C01 Lessm.Audit.C01 && lake env lean Lessm/Audit/C01.lean')
    chk.cov['trusted_base'] = C.TRUSTED_BASE
    chk.cov['rule'] = ('catalogue: all ordered pairs of 8 compound kinds x 4 combinators (x optional spaces), all ordered pairs of 6 value '
                       'kinds x {space, comma, comma+space}, 4 !important spellings, 9 media query shapes; random sheets of 1-7 rules / '
                       '@media blocks; every sheet under a random option vector out of 7. distinct by (source, options); non-trivial = '
                       'a selector with a combinator or descendant space, or a value list')
    table_words(rng)
    srcs = catalogue(rng)
    # every table word twice in a row, after a comma, under a property the table knows and under one it does not
    for w in VALUES['elword'] + VALUES['propword']:
        srcs.append('.a{background-position:0 0, %s %s;place-items:%s %s;transition:%s 1s ease, %s 2s;top:%s}\n' % (w, w, w, w, w, w, w))
    nrand = 500 if tier == 'quick' else 12000
    srcs += [rand_sheet(rng) for _ in range(nrand)]
    opts = [rng.choice(OPTS) for _ in srcs]
    res = C.compile_many(list(zip(srcs, opts)))
    disagreements = []
    # model tie (iii): the selector printer at character level
    nfmt, fdis = identfmt_correspondence(rng, 300 if tier == 'quick' else 8000)
    chk.cov['identifier_fmt_token_lists_compared'] = nfmt
    disagreements.extend(('identfmt',) + d for d in fdis[:3])
    # model tie (i): selectors through identParse via c02.flat on single-rule sheets of the catalogue
    cat_n = len(srcs) - nrand
    for i, (src, o, r) in enumerate(zip(srcs, opts, res)):
        nontriv = bool(re.search(r'[>+~]|\w [.#\w]|, ?\w', src))
        chk.count((src, json.dumps(o, sort_keys=True)), nontrivial=nontriv)
        want = observe(src, True)
        if r[0] != 'ok':
            chk.violation({'kind': 'plain-error', 'source': src, 'options': o, 'expected': want, 'actual': list(r[:3])})
            if len(chk.violations) > 5:
                break
            continue
        got = observe(r[1], False)
        if got != want:
            chk.violation({'kind': 'plain', 'source': src, 'options': o, 'expected': want, 'actual': r[1]})
            if len(chk.violations) > 5:
                break
    # model tie: the catalogue selectors through Lessm.Sel (token lists built by the harness)
    try:
        lines = []
        exp = []
        for src in srcs[:cat_n]:
            m = re.match(r'^([^{@]+)\{color:red\}\n$', src)
            if not m:
                continue
            toks = [t for t in re.split(r'(\s*[>+~]\s*|\s+)', m.group(1).strip()) if t]
            toks2 = []
            for t in toks:
                ts = t.strip()
                if ts in ('>', '+', '~'):
                    if t[0] == ' ':
                        toks2.append(' ')
                    toks2.append(ts)
                elif ts == '':
                    toks2.append(' ')
                else:
                    toks2.append(t)
            lines.append(('c02.flat', json.dumps([{'r': toks2, 'b': [{'d': ['color', 'red']}]}])))
            exp.append(canon.norm_selector(m.group(1)))
        mo = C.Driver().run(lines)
        for e, m_ in zip(exp, mo):
            got = canon.norm_selector(json.loads(m_)[0][0][0])
            if got != e and '*' not in e:
                disagreements.append(('selector', e, got))
    except Exception as e:
        build.ok = False
        build.log += '\nDRIVER: %r' % e
    for k in (3, cat_n + 1, len(srcs) - 1):
        chk.sample({'source': srcs[k], 'options': opts[k], 'real': res[k][1] if res[k][0] == 'ok' else list(res[k][:3])})
    C.replay_known(chk, PROP)
    chk.cov['disagreements_checked'] = len(disagreements)
    chk.cov['exhaustive'] = False
    chk.cov['catalogue'] = {'fixed_cases': cat_n, 'random_sheets': nrand}
    C.tie_verdict(chk, build, missing, disagreements, 'Lessm.Sel.identParse vs lesscpy on the selector catalogue',
                  'the plain-CSS catalogue and random sheets passed through the real code unchanged: no failing input')
    return chk.finish()


def replay(path):
    d = json.load(open(path))
    src = d.get('source')
    if not src:
        print('replay: nothing executable in', path)
        return 2
    r = C.real_compile(src, **(d.get('options') or dict(minify=True)))
    print('source  :', src)
    print('actual  :', r[:2])
    bad = r[0] != 'ok' or observe(r[1], False) != observe(src, True)
    if bad:
        print('VIOLATION property=%s replay=%s' % (PROP, path))
        return 1
    print('replay: property holds on this input now')
    return 0
