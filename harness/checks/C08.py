"""
C08  Colour literals are normalised and colour arithmetic is channel-wise and clamped.

Proof side : lean/Lessm/Props/C08.lean (C08_fmt, C08_idem, C08_lit_range, C08_chan_*, C08_arith).
Tie        : correspondence of Lessm.Color.fmt / processLit with the real compiler on
             all 4096 short literals x 3 letter-case patterns x 3 positions, sampled 6-digit
             literals, and overflow/underflow-biased colour pairs x 4 operators.
Oracle     : the property itself, computed independently in Python (clamp of the exact result;
             for `/` floor or nearest are both accepted as the property says).
"""
import json
import random
import re
from decimal import Decimal
from fractions import Fraction

import common as C

PROP = 'C08'
THEOREMS = ['Lessm.Color.C08_fmt', 'Lessm.Color.C08_idem', 'Lessm.Color.C08_lit_range',
            'Lessm.Color.C08_chan_add', 'Lessm.Color.C08_chan_sub', 'Lessm.Color.C08_chan_mul',
            'Lessm.Color.C08_chan_div', 'Lessm.Color.C08_arith', 'Lessm.Color.hex2_roundtrip']
HEX = '0123456789abcdef'


def case_pattern(s, k, rng):
    if k == 0:
        return s.lower()
    if k == 1:
        return s.upper()
    return ''.join(ch.upper() if rng.random() < 0.5 else ch.lower() for ch in s)


def rgb_of(lit):
    d = lit[1:]
    if len(d) == 3:
        d = ''.join(c * 2 for c in d)
    return tuple(int(d[i:i + 2], 16) for i in (0, 2, 4))


def spec_fmt(lit):
    return '#%02x%02x%02x' % rgb_of(lit)


def spec_op_ok(a, o, b, got):
    """property oracle for arithmetic: well-formed, channel-wise, clamped (floor or nearest for /)."""
    if not re.fullmatch(r'#[0-9a-f]{6}', got or ''):
        return False
    ra, rb, rg = rgb_of(a), rgb_of(b), rgb_of(got)
    for x, y, z in zip(ra, rb, rg):
        if o == '+':
            ok = {min(255, x + y)}
        elif o == '-':
            ok = {max(0, x - y)}
        elif o == '*':
            ok = {min(255, x * y)}
        else:
            q = Fraction(x, y)
            fl = q.numerator // q.denominator
            ok = {min(255, fl), min(255, int(q + Fraction(1, 2)))}
        if z not in ok:
            return False
    return True


POSITIONS = [
    ('value', lambda i, lit: '.c%d{color:%s}' % (i, lit), lambda m: m),
    ('variable', lambda i, lit: '@v%d:%s;.c%d{color:@v%d}' % (i, lit, i, i), lambda m: m),
    ('fnarg', lambda i, lit: '.c%d{color:foo(%s)}' % (i, lit), lambda m: m[4:-1] if m.startswith('foo(') and m.endswith(')') else m),
]
RULE_RE = re.compile(r'\.c(\d+)\{color:([^;}]*);?\}')


def compile_cases(cases, render):
    """cases: list of payloads; render(i, payload)->less text. Returns dict i -> value text, errors list."""
    CH = 1500
    jobs, spans = [], []
    for s in range(0, len(cases), CH):
        chunk = cases[s:s + CH]
        jobs.append(('\n'.join(render(s + j, c) for j, c in enumerate(chunk)), dict(minify=True)))
        spans.append((s, len(chunk)))
    res = C.compile_many(jobs)
    out, errs = {}, []
    for (s, n), r, job in zip(spans, res, jobs):
        if r[0] == 'ok':
            for m in RULE_RE.finditer(r[1]):
                out[int(m.group(1))] = m.group(2).strip()
        else:
            # isolate the failing cases one by one
            single = C.compile_many([(render(s + j, cases[s + j]), dict(minify=True)) for j in range(n)])
            for j, rr in enumerate(single):
                if rr[0] == 'ok':
                    m = RULE_RE.search(rr[1])
                    if m:
                        out[s + j] = m.group(2).strip()
                else:
                    errs.append((s + j, rr))
    return out, errs


def gen_literals(tier, rng):
    lits = []
    for a in HEX:
        for b in HEX:
            for c in HEX:
                for k in range(3):
                    lits.append('#' + case_pattern(a + b + c, k, rng))
    n6 = 3000 if tier == 'quick' else 40000
    for _ in range(n6):
        s = ''.join(rng.choice(HEX) for _ in range(6))
        lits.append('#' + case_pattern(s, rng.randrange(3), rng))
    return lits


def biased_byte(rng):
    r = rng.random()
    if r < 0.25:
        return rng.choice([0, 1, 2, 127, 128, 129, 254, 255, 16, 15, 17])
    return rng.randrange(256)


def gen_pairs(tier, rng):
    n = 4000 if tier == 'quick' else 60000
    pairs = []
    # boundary catalogue: every channel sum/product landing on 254..258 and differences -2..2
    for x in range(0, 256, 5):
        for y in (255 - x, 256 - x, 257 - x, x, x + 1, x - 1):
            if 0 <= y <= 255:
                pairs.append(((x, 0, 255), (y, 1, 1)))
                pairs.append(((1, x, 7), (9, y, 2)))
                pairs.append(((3, 200, x), (2, 100, y)))
    for _ in range(n):
        pairs.append((tuple(biased_byte(rng) for _ in range(3)), tuple(biased_byte(rng) for _ in range(3))))
    cases = []
    for a, b in pairs:
        la = '#%02x%02x%02x' % a
        lb = '#%02x%02x%02x' % b
        if rng.random() < 0.2 and all(v % 17 == 0 for v in a):
            la = '#' + ''.join('%x' % (v // 17) for v in a)
        for o in '+-*/':
            if o == '/' and 0 in b:
                continue
            cases.append((case_pattern(la[1:], rng.randrange(3), rng).join(['#', '']), o, lb))
    return cases


def run(tier):
    chk = C.Check(PROP, tier, 'proof')
    rng = random.Random(C.seed() * 7919 + 8)
    build = C.lean_build(PROP)
    missing = chk.set_proof(build, THEOREMS, 'cd lean && lake build Lessm.Props.C08 Lessm.Audit.C08 && lake env lean Lessm/Audit/C08.lean')
    chk.cov['trusted_base'] = C.TRUSTED_BASE
    chk.cov['rule'] = ('literal cases: all 4096 short literals x {lower,UPPER,mixed} + sampled 6-digit literals, each in a '
                       'value, through a variable and as a function argument; arithmetic cases: boundary catalogue + '
                       'overflow/underflow-biased random pairs x 4 operators. distinct = distinct (literal,position) / '
                       '(a,op,b); non-trivial = literal not already in canonical form, or a result with a clamped or '
                       'fractional channel')
    proof_broken = (not build.ok) or bool(missing)
    have_driver = build.ok or __import__('os').path.exists(C.DRIVER)

    # ---- literals
    lits = gen_literals(tier, rng)
    lit_cases = [(lit, p) for lit in lits for p in range(3)]
    model = {}
    if have_driver:
        try:
            drv = C.Driver()
            uniq = sorted(set(lits))
            ans = drv.run([('c08.fmt', u) for u in uniq])
            model = dict(zip(uniq, ans))
        except Exception as e:  # driver broken: treated like a broken proof obligation
            proof_broken = True
            build.log += '\nDRIVER: %r' % e
    out, errs = compile_cases(lit_cases, lambda i, c: POSITIONS[c[1]][1](i, c[0]))
    disagreements = []
    for i, (lit, p) in enumerate(lit_cases):
        want = spec_fmt(lit)
        got = out.get(i)
        if got is not None:
            got = POSITIONS[p][2](got)
        chk.count(('lit', lit, p), nontrivial=(lit != want))
        m = model.get(lit)
        if got != want:
            chk.violation({'kind': 'literal', 'literal': lit, 'position': POSITIONS[p][0],
                           'source': POSITIONS[p][1](0, lit), 'expected': want, 'actual': got,
                           'model': m})
            if len(chk.violations) > 5:
                break
        elif m is not None and m != got:
            disagreements.append(('literal', lit, m, got))
    for i, rr in errs[:3]:
        lit, p = lit_cases[i]
        chk.violation({'kind': 'literal-error', 'literal': lit, 'position': POSITIONS[p][0],
                       'source': POSITIONS[p][1](0, lit), 'expected': spec_fmt(lit), 'actual': list(rr)})
    chk.sample({'literal': lit_cases[7][0], 'source': POSITIONS[1][1](0, lit_cases[7][0]), 'real': out.get(7 * 3 // 3)})

    # ---- arithmetic
    ops = gen_pairs(tier, rng)
    if have_driver and not chk.violations:
        try:
            ans = C.Driver().run([('c08.op', '%s %s %s' % c) for c in ops])
        except Exception as e:
            proof_broken = True
            ans = [None] * len(ops)
            build.log += '\nDRIVER: %r' % e
    else:
        ans = [None] * len(ops)
    out2, errs2 = compile_cases(ops, lambda i, c: '.c%d{color:%s %s %s}' % (i, c[0], c[1], c[2]))
    for i, c in enumerate(ops):
        got = out2.get(i)
        a, o, b = c
        ra, rb = rgb_of(a), rgb_of(b)
        exact = [Fraction(x) + y if o == '+' else Fraction(x) - y if o == '-' else Fraction(x) * y if o == '*' else Fraction(x, y)
                 for x, y in zip(ra, rb)]
        nontriv = any(e > 255 or e < 0 or e.denominator != 1 for e in exact)
        chk.count(('op',) + c, nontrivial=nontriv)
        if not spec_op_ok(a, o, b, got):
            chk.violation({'kind': 'arith', 'a': a, 'op': o, 'b': b, 'source': '.c{color:%s %s %s}' % c,
                           'expected': 'channel-wise clamp of exact result', 'actual': got, 'model': ans[i]})
            if len(chk.violations) > 8:
                break
        elif ans[i] is not None and ans[i] != got:
            disagreements.append(('arith', c, ans[i], got))
    for i, rr in errs2[:3]:
        chk.violation({'kind': 'arith-error', 'case': list(ops[i]), 'source': '.c{color:%s %s %s}' % ops[i], 'actual': list(rr)})
    # ---- a colour and a number: the number acts on every channel; whatever the operands, the result is clamped and well-formed
    #      (seeded C08-3: one clamp bound per operator is enough for colour pairs only).  Numbers written with a decimal point
    #      are compared exactly; integer spellings are only checked for a well-formed, clamped result (lesscpy reads them as
    #      hexadecimal, `#102030 + 10` adds 16: outside the statement, which speaks of colours)
    nums = ['0.5', '.25', '1.5', '-1.5', '2.0', '-2.0', '300.0', '-300.0', '0.1', '-0.5', '2', '-1', '-2', '3', '300', '-300', '10']
    ncases = []
    for _ in range(150 if tier == 'quick' else 3000):
        col = '#%02x%02x%02x' % tuple(biased_byte(rng) for _ in range(3))
        n = rng.choice(nums)
        o = rng.choice('+-*/')
        if o == '/' and float(n) == 0:
            continue
        ncases.append((col, o, n))
    for col in ('#808080', '#80ff40', '#222222', '#010101', '#ffffff', '#000000'):
        for n in nums:
            for o in '+-*/':
                ncases.append((col, o, n))
    out3, errs3 = compile_cases(ncases, lambda i, c: '.c%d{color:%s %s %s}' % (i, c[0], c[1], c[2]))
    for i, (col, o, n) in enumerate(ncases):
        got = out3.get(i)
        chk.count(('opnum', col, o, n), nontrivial=True)
        bad = None
        if got is None:
            continue   # reported through errs3
        if not re.fullmatch(r'#[0-9a-f]{6}', got):
            bad = 'not a well-formed #rrggbb'
        elif '.' in n:
            q = Fraction(Decimal(n))
            for x, z in zip(rgb_of(col), rgb_of(got)):
                e = x + q if o == '+' else x - q if o == '-' else x * q if o == '*' else x / q
                cl = min(Fraction(255), max(Fraction(0), e))
                if abs(z - cl) >= 1:
                    bad = 'channel %d: exact %s clamped %s printed %d' % (x, e, cl, z)
        if bad:
            chk.violation({'kind': 'arith-number', 'source': '.c{color:%s %s %s}' % (col, o, n), 'why': bad, 'actual': got})
            if len(chk.violations) > 8:
                break
    for i, rr in errs3[:3]:
        chk.violation({'kind': 'arith-number-error', 'source': '.c{color:%s %s %s}' % ncases[i], 'actual': list(rr)})
    chk.cov['colour_number_cases'] = len(ncases)
    if ops:
        chk.sample({'case': list(ops[0]), 'source': '.c0{color:%s %s %s}' % ops[0], 'real': out2.get(0), 'model': ans[0]})
        chk.sample({'case': list(ops[-1]), 'real': out2.get(len(ops) - 1), 'model': ans[-1]})
    chk.cov['disagreements_checked'] = len(disagreements)
    chk.cov['exhaustive'] = False
    chk.cov['catalogue'] = {'short_literals_all_4096_x3_cases_x3_positions': True, 'six_digit_sampled': len(lits) - 4096 * 3,
                            'arith_cases': len(ops)}

    # ---- verdicts for broken tie without failing input
    if not chk.violations:
        if proof_broken:
            chk.violation({'kind': 'proof-obligation', 'broken': missing or build.failed_modules,
                           'audit': build.audit_problems, 'log_tail': build.log[-1500:],
                           'search': 'the literal and arithmetic catalogues above were run against the real code: no failing input'},
                          'no-failing-input-found')
        elif disagreements:
            chk.violation({'kind': 'correspondence', 'broken': 'Lessm.Color.fmt/processLit vs lesscpy',
                           'disagreements': disagreements[:10],
                           'note': 'model and implementation differ but the property oracle accepts the implementation'},
                          'no-failing-input-found')
    return chk.finish()


def replay(path):
    d = json.load(open(path))
    src = d.get('source')
    if not src:
        print('replay: nothing executable in', path)
        return 2
    r = C.real_compile(src, minify=True)
    print('source  :', src)
    print('actual  :', r)
    print('expected:', d.get('expected'))
    if d['kind'] == 'literal':
        m = RULE_RE.search(r[1]) if r[0] == 'ok' else None
        bad = not (m and d['expected'] in m.group(2))
    elif d['kind'] == 'arith':
        m = RULE_RE.search(r[1]) if r[0] == 'ok' else None
        bad = not (m and spec_op_ok(d['a'], d['op'], d['b'], m.group(2).strip()))
    else:
        bad = r[0] != 'ok'
    if bad:
        print('VIOLATION property=%s replay=%s' % (PROP, path))
        return 1
    print('replay: property holds on this input now')
    return 0
