"""
C19  At-rule blocks keep their structure.

Proof side : lean/Lessm/Props/C19.lean (C19_item / C19_list: same items, frames and declarations in the same order,
             only values evaluated; C19_stmt: statements verbatim in position; C19_values).
Tie        : Lessm.AtRule.evalList + printList against the real compiler: all keyframes vendor spellings x 1-6
             frames x frame selector kinds (from / to / integer % / decimal %) x contexts (top level, inside @media,
             between ordinary rules) x values that are literals, variables or expressions; @font-face / @viewport /
             @-ms-viewport with and without a space before '{'; @charset and every non-LESS @import form.
Oracle     : the structure of the source itself (independent of Lean): parsed real output must have the same
             at-rule preludes, frame selectors and declaration names in order, with the expected values.
"""
import json
import random
import re

import common as C
import canon

PROP = 'C19'
THEOREMS = ['Lessm.AtRule.C19_item', 'Lessm.AtRule.C19_list', 'Lessm.AtRule.C19_values', 'Lessm.AtRule.C19_stmt',
            'Lessm.AtRule.C19_identity', 'Lessm.AtRule.evalFrames_full']
KW = ['@keyframes', '@-webkit-keyframes', '@-moz-keyframes', '@-ms-keyframes', '@-o-keyframes']
STMTS = ['@charset "utf-8";', '@import "a.css";', '@import url("b.css");', '@import "c.css" screen;',
         '@import url("d.css") screen and (orientation:landscape);', '@import "e.css" print, screen;', "@import 'f.css';"]
PROPS = ['top', 'left', 'width', 'opacity', 'color', 'margin-left']
VALUES = [('0', '0'), ('10px', '10px'), ('@w', '5px'), ('@w * 2', '10px'), ('red', 'red'), ('1px + 2', '3px'), ('@c', '#ff0000'),
          ('50%', '50%'), ('(@w + 1) * 2', '12px'), ('.5', '.5'), ('translate(1px, 2px)', 'translate(1px,2px)'), ('"s"', '"s"')]


def rand_decls(rng, n):
    return [(rng.choice(PROPS),) + rng.choice(VALUES) for _ in range(n)]


def rand_frames(rng, n):
    sels = ['from', 'to'] + ['%d%%' % k for k in (0, 10, 25, 50, 75, 100)] + ['12.5%', '33.3%']

    def one():
        if rng.random() < 0.25:         # a selector list: `0%, 50% {...}`
            return ','.join(rng.sample(sels, rng.randrange(2, 4)))
        return rng.choice(sels)
    return [(one(), rand_decls(rng, rng.randrange(1, 4))) for _ in range(n)]


def rand_item(rng, depth=0):
    r = rng.random()
    if r < 0.35:
        return ('kf', rng.choice(KW), rng.choice(['spin', 'a1', 'fade-in', 'x_y', 'rotate', 'scale', 'translate', 'pulse', 'slide-in', 'bounce', 'blink', 'shake', 'zoomIn', 'move', 'grow']), rand_frames(rng, rng.randrange(1, 7)))
    if r < 0.5:
        return ('db', rng.choice(['@font-face', '@viewport', '@-ms-viewport']), rand_decls(rng, rng.randrange(1, 4)))
    if r < 0.65:
        return ('stmt', rng.choice(STMTS))
    if r < 0.85 or depth:
        return ('rule', rng.choice(['.a', '.b .c', '#i', 'div > p']), rand_decls(rng, rng.randrange(1, 3)))
    body = [rand_item(rng, 1) for _ in range(rng.randrange(1, 4))]
    body = [b for b in body if b[0] != 'stmt']
    if not body:
        body = [('rule', '.z', rand_decls(rng, 1))]
    return ('media', rng.choice(['print', 'screen and (min-width:10px)']), body)


def render(items, rng, ind=0):
    pad = '  ' * ind
    s = ''
    sp = lambda: rng.choice(['', ' ', ' '])
    for it in items:
        if it[0] == 'stmt':
            s += pad + it[1] + '\n'
        elif it[0] == 'kf':
            s += '%s%s %s%s{\n' % (pad, it[1], it[2], sp())
            for sel, ds in it[3]:
                s += '%s  %s%s{ %s }\n' % (pad, sel.replace(',', rng.choice([', ', ',', ' , '])), sp(), ' '.join('%s: %s;' % (p, v) for p, v, _e in ds))
            s += pad + '}\n'
        elif it[0] in ('db', 'rule'):
            s += '%s%s%s{ %s }\n' % (pad, it[1], sp() if it[0] == 'db' else ' ', ' '.join('%s: %s;' % (p, v) for p, v, _e in it[2]))
        else:
            s += '%s@media %s {\n%s%s}\n' % (pad, it[1], render(it[2], rng, ind + 1), pad)
    return s


def to_json(items):
    out = []
    for it in items:
        if it[0] == 'stmt':
            out.append({'stmt': it[1]})
        elif it[0] == 'kf':
            out.append({'kf': [it[1], it[2], [[sel, [[p, v] for p, v, _e in ds]] for sel, ds in it[3]]]})
        elif it[0] == 'db':
            out.append({'db': [it[1], [[p, v] for p, v, _e in it[2]]]})
        elif it[0] == 'rule':
            out.append({'rule': [it[1], [[p, v] for p, v, _e in it[2]]]})
        else:
            out.append({'media': it[1], 'b': to_json(it[2])})
    return out


def expected_tree(items):
    """what canon.parse_css should see"""
    out = []
    for it in items:
        if it[0] == 'stmt':
            out.append(('stmt', re.sub(r'\s+', ' ', it[1].rstrip(';')).replace("'", "'")))
        elif it[0] == 'kf':
            out.append(('at', '%s %s' % (it[1], it[2]), [('rule', sel.split(','), [(p, canon.norm_value(e), False) for p, _v, e in ds]) for sel, ds in it[3]]))
        elif it[0] == 'db':
            out.append(('atdecl', it[1], [(p, canon.norm_value(e), False) for p, _v, e in it[2]]))
        elif it[0] == 'rule':
            out.append(('rule', canon.norm_selector_list(it[1]), [(p, canon.norm_value(e), False) for p, _v, e in it[2]]))
        else:
            out.append(('at', '@media ' + it[1], expected_tree(it[2])))
    return out


def canon_tree(nodes):
    out = []
    for nd in nodes:
        if nd[0] == 'at':
            out.append(('at', re.sub(r'\s*:\s*', ':', nd[1]), canon_tree(nd[2])))
        elif nd[0] == 'stmt':
            out.append(('stmt', re.sub(r'\s*,\s*', ', ', nd[1])))
        else:
            out.append(nd)
    return out


def run(tier):
    chk = C.Check(PROP, tier, 'proof')
    rng = random.Random(C.seed() * 160481183 + 19)
    build = C.lean_build(PROP)
    missing = chk.set_proof(build, THEOREMS, 'cd lean && lake build Lessm.Props.C19 Lessm.Audit.C19 && lake env lean Lessm/Audit/C19.lean')
    chk.cov['trusted_base'] = C.TRUSTED_BASE
    chk.cov['rule'] = ('catalogue: 5 keyframes spellings x 1-6 frames x 3 contexts, 3 declaration-block at-rules x {space, no space before the '
                       'brace} x 2 contexts, 7 statement forms x 3 positions; random sheets of 1-6 items mixing all of these with ordinary '
                       'rules and @media. distinct by source; non-trivial = a keyframes block with >= 2 frames or an at-rule inside @media')
    sheets = []
    for kw in KW:
        for n in range(1, 7):
            fr = rand_frames(rng, n)
            sheets.append([('kf', kw, 'k%d' % n, fr)])
            sheets.append([('media', 'print', [('kf', kw, 'k%d' % n, fr), ('rule', '.a', rand_decls(rng, 1))])])
            sheets.append([('rule', '.a', rand_decls(rng, 1)), ('kf', kw, 'k%d' % n, fr), ('rule', '.b', rand_decls(rng, 2))])
    for p in ['@font-face', '@viewport', '@-ms-viewport']:
        for _ in range(4):
            ds = rand_decls(rng, rng.randrange(1, 4))
            sheets.append([('db', p, ds)])
            sheets.append([('media', 'screen and (min-width:10px)', [('db', p, ds)])])
    for st in STMTS:
        sheets.append([('stmt', st)])
        sheets.append([('stmt', st), ('rule', '.a', rand_decls(rng, 1))])
        sheets.append([('rule', '.a', rand_decls(rng, 1)), ('stmt', st), ('kf', '@keyframes', 'z', rand_frames(rng, 2)), ('stmt', STMTS[0])])
    nrand = 400 if tier == 'quick' else 8000
    for _ in range(nrand):
        sheets.append([rand_item(rng) for _ in range(rng.randrange(1, 7))])
    srcs = ['@w: 5px;\n@c: #f00;\n' + render(s, rng) for s in sheets]
    env = [[v, e] for v, e in VALUES]
    try:
        model = C.Driver().run([('c19.run', json.dumps({'env': env, 'sheet': to_json(s)})) for s in sheets])
    except Exception as e:
        model = [None] * len(sheets)
        build.ok = False
        build.log += '\nDRIVER: %r' % e
    res = C.compile_many([(s, dict(minify=True)) for s in srcs])
    disagreements = []
    for i, (sh, src, r) in enumerate(zip(sheets, srcs, res)):
        nontriv = any(it[0] == 'media' for it in sh) or any(it[0] == 'kf' and len(it[3]) >= 2 for it in sh)
        chk.count(src, nontrivial=nontriv)
        want = canon_tree(expected_tree(sh))
        if r[0] != 'ok':
            chk.violation({'kind': 'at-error', 'source': src, 'expected': want, 'actual': list(r[:3])})
            if len(chk.violations) > 5:
                break
            continue
        got = canon_tree(canon.parse_css(r[1]))
        if json.dumps(got) != json.dumps(want):
            chk.violation({'kind': 'at', 'source': src, 'expected': want, 'actual': r[1], 'model': model[i]})
            if len(chk.violations) > 5:
                break
            continue
        if model[i] is not None:
            mtxt = model[i].replace('\\n', '\n')
            mt = canon_tree(canon.parse_css(mtxt))
            if json.dumps(mt) != json.dumps(got):
                disagreements.append((src, mtxt, r[1]))
    for k in (0, 40, len(sheets) - 1):
        chk.sample({'source': srcs[k], 'real': res[k][1] if res[k][0] == 'ok' else list(res[k][:3]), 'model': model[k]})
    C.replay_known(chk, PROP)
    chk.cov['disagreements_checked'] = len(disagreements)
    chk.cov['exhaustive'] = False
    chk.cov['catalogue'] = {'fixed_cases': len(sheets) - nrand, 'random_sheets': nrand}
    C.tie_verdict(chk, build, missing, disagreements, 'Lessm.AtRule.evalList/printList vs lesscpy',
                  'the at-rule catalogue and random sheets were run against the real code: no failing input')
    return chk.finish()


def replay(path):
    d = json.load(open(path))
    src = d.get('source')
    if not src:
        print('replay: nothing executable in', path)
        return 2
    r = C.real_compile(src, minify=True)
    print('source  :', src)
    print('actual  :', r)
    print('expected:', d.get('expected'))
    bad = not (r[0] == 'ok' and json.dumps(canon_tree(canon.parse_css(r[1]))) == json.dumps(d.get('expected')))
    if bad:
        print('VIOLATION property=%s replay=%s' % (PROP, path))
        return 1
    print('replay: property holds on this input now')
    return 0
