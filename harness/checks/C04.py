"""
C04  Arithmetic follows precedence, left associativity, parentheses and unit rules.

Proof side : lean/Lessm/Props/C04.lean (C04_table and C04_prodprec on the REGENERATED precedence table and
             grammar, C04_parse, C04_parse_paren, C04_eval, C04_eval_zero, C04).
Tie        : the model front end + evaluator (driver op c04.eval = parse with the regenerated levels, then
             evalE) against the real compiler on: all 16 operator pairs and all 64 operator triples with
             pairwise-distinguishing operands x unit placements x literal/variable operands, redundant
             parentheses, -(e), -@v; random trees up to 15 nodes over integers and decimals of both signs.
Oracle     : ordinary arithmetic with Fractions on the tree the harness generated (independent of Lean).
"""
import itertools
import json
import random
import re
import sys
from decimal import Decimal
from fractions import Fraction

import common as C

PROP = 'C04'
THEOREMS = ['Lessm.Expr.C04_table', 'Lessm.Expr.C04_prodprec', 'Lessm.Expr.C04_parse', 'Lessm.Expr.C04_parse_paren',
            'Lessm.Expr.C04_eval', 'Lessm.Expr.C04_eval_zero', 'Lessm.Expr.C04',
            'Lessm.Sign.C04_sign_clean', 'Lessm.Sign.C04_sign_fixed', 'Lessm.Sign.C04_sign_idem', 'Lessm.Sign.C04_sign_conservative',
            'Lessm.Sign.C04_sign_value', 'Lessm.Sign.C04_sign_reading', 'Lessm.Sign.C04_sign_local']
LVL = {'+': 1, '-': 1, '*': 2, '/': 2}
NUM_RE = re.compile(r'^(-?(?:\d+\.?\d*|\.\d+)(?:e[-+]?\d+)?)([a-z%]*)$')


def dec(s):
    return Fraction(Decimal(s))


# trees: ('n', text, unit) | ('v', text, unit, negated) | ('p', e) | ('neg', e) | ('b', op, l, r)

def value(e):
    k = e[0]
    if k == 'n':
        return dec(e[1])
    if k == 'v':
        return -dec(e[1]) if e[3] else dec(e[1])
    if k == 'p':
        return value(e[1])
    if k == 'neg':
        return -value(e[1])
    a, b = value(e[2]), value(e[3])
    o = e[1]
    return a + b if o == '+' else a - b if o == '-' else a * b if o == '*' else a / b


def unit(e):
    k = e[0]
    if k in ('n', 'v'):
        return e[2]
    if k in ('p', 'neg'):
        return unit(e[1])
    return unit(e[2]) or unit(e[3])


def ok_tree(e, top=True):
    """the property's side conditions: divisors non-zero, no proper sub-expression zero, magnitudes printable"""
    try:
        v = value(e)
    except ZeroDivisionError:
        return False
    if not top and v == 0:
        return False
    if v != 0 and not (Fraction(1, 1000) <= abs(v) < 10 ** 12):
        return False
    k = e[0]
    # (-@v with a negative value, -(-@v), -(-(@v)) were excluded here while C04-negvar was an open finding; repaired by c681c54)
    if k in ('p', 'neg'):
        return ok_tree(e[1], False)
    if k == 'b':
        return ok_tree(e[2], False) and ok_tree(e[3], False)
    return True


def maxmag(e):
    k = e[0]
    m = abs(value(e))
    if k in ('p', 'neg'):
        return max(m, maxmag(e[1]))
    if k == 'b':
        return max(m, maxmag(e[2]), maxmag(e[3]))
    return m


def render(e, vars_, model=False):
    """LESS text (spaces around binary operators) and, for the model, the token words."""
    k = e[0]
    if k == 'n':
        return [e[1] + e[2]]
    if k == 'v':
        if model:
            q = dec(e[1])
            t = e[1]
            if e[3]:
                t = t[1:] if t.startswith('-') else '-' + t
            return [t + e[2]]
        name = '@v%d' % len(vars_)
        vars_.append((name, e[1] + e[2]))
        return [('-' if e[3] else '') + name]
    if k == 'p':
        return ['('] + render(e[1], vars_, model) + [')']
    if k == 'neg':
        return ['-('] + render(e[1], vars_, model) + [')']
    return render(e[2], vars_, model) + [e[1]] + render(e[3], vars_, model)


def text_of(words):
    s = ' '.join(words)
    return s.replace('( ', '(').replace(' )', ')')


def canon(e):
    """insert exactly the parentheses the standard reading needs"""
    k = e[0]
    if k in ('n', 'v'):
        return e
    if k == 'p':
        return ('p', canon(e[1]))
    if k == 'neg':
        return ('neg', canon(e[1]))
    o, l, r = e[1], canon(e[2]), canon(e[3])
    if l[0] == 'b' and LVL[l[1]] < LVL[o]:
        l = ('p', l)
    if r[0] == 'b' and LVL[r[1]] <= LVL[o]:
        r = ('p', r)
    return ('b', o, l, r)


def rand_leaf(rng, unit_p=0.3):
    r = rng.random()
    if r < 0.5:
        t = str(rng.randrange(1, 30))
    elif r < 0.8:
        t = '%d.%s' % (rng.randrange(0, 20), rng.choice(['5', '25', '1', '75', '2', '05', '125']))
    else:
        t = '.%s' % rng.choice(['5', '25', '75'])
    if rng.random() < 0.25:
        t = '-' + t
    u = rng.choice(['px', 'em', '%', 's']) if rng.random() < unit_p else ''
    if rng.random() < 0.3:
        return ('v', t, u, rng.random() < 0.3)
    return ('n', t, u)


def rand_tree(rng, n):
    if n <= 1:
        return rand_leaf(rng)
    r = rng.random()
    if r < 0.08:
        return ('neg', rand_tree(rng, n - 1))
    if r < 0.16:
        return ('p', rand_tree(rng, n - 1))
    k = rng.randrange(1, n)
    return ('b', rng.choice('+-*/'), rand_tree(rng, k), rand_tree(rng, n - k))


def catalogue():
    """all operator pairs / triples, operands chosen so that every reading gives a different value"""
    out = []
    ops = '+-*/'
    leafs = ['7', '3', '5', '2']
    for unit_mode in range(5):
        def L(i):
            u = ''
            if unit_mode == 1 and i == 0:
                u = 'px'
            if unit_mode == 2 and i == 1:
                u = 'em'
            if unit_mode == 3:
                u = 'px'
            if unit_mode == 4:
                u = ['px', 'em', '%', 's'][i]
            return ('n', leafs[i], u)
        for o1, o2 in itertools.product(ops, repeat=2):
            flat = [L(0), o1, L(1), o2, L(2)]
            out.append(('pair', flat))
        for o1, o2, o3 in itertools.product(ops, repeat=3):
            flat = [L(0), o1, L(1), o2, L(2), o3, L(3)]
            out.append(('triple', flat))
    return out


def std_tree(flat):
    """standard reading of a flat operand/operator sequence (precedence climbing, left assoc)"""
    operands = flat[0::2]
    ops = flat[1::2]

    def parse(minl, pos):
        lhs = operands[pos[0]]
        pos[0] += 1
        while pos[0] - 1 < len(ops) and LVL[ops[pos[0] - 1]] >= minl:
            o = ops[pos[0] - 1]
            rhs = parse(LVL[o] + 1, pos)
            lhs = ('b', o, lhs, rhs)
        return lhs
    return parse(1, [0])


SIGN_POOL = ['-3px', '3px', '-.5em', '.5em', '-', '--3', '-x', '-moz-box', '-5', '5', '-0', '-.', '-.x', 'a', '+', '*', '-9%', '#fff', '"-1"', '-1e3', ',', '-٣']


def fold_correspondence(rng, n):
    """random flat token lists with Sign tokens -> (count, disagreements as (input, model, real))"""
    sys.path.insert(0, C.REPO)
    try:
        from lesscpy.lessc import utility as U
    finally:
        sys.path.pop(0)
    lists = []
    for _ in range(n):
        k = rng.randrange(0, 9)
        lists.append([('<S>' if rng.random() < 0.45 else rng.choice(SIGN_POOL)) for _ in range(k)])
    try:
        model = C.Driver().run([('c04.signs', ' '.join(l)) for l in lists])
    except Exception as e:  # noqa
        return n, [(' '.join(l), 'DRIVER: %r' % e, None) for l in lists[:1]]
    dis = []
    for l, m in zip(lists, model):
        try:
            real = U.fold_signs([U.Sign('-') if t == '<S>' else t for t in l])
            real = ' '.join('<S>' if isinstance(t, U.Sign) else t for t in real)
        except Exception as e:  # noqa
            real = 'EXC %r' % e
        if real != m:
            dis.append((' '.join(l), m, real))
    return n, dis


def run(tier):
    chk = C.Check(PROP, tier, 'proof')
    rng = random.Random(C.seed() * 32452843 + 4)
    build = C.lean_build(PROP)
    missing = chk.set_proof(build, THEOREMS, 'cd lean && lake build Lessm.Props.C04 Lessm.Audit.C04 && lake env lean Lessm/Audit/C04.lean')
    chk.cov['trusted_base'] = C.TRUSTED_BASE
    chk.cov['rule'] = ('catalogue: all 16 operator pairs and 64 triples x 5 unit placements (flat text, standard reading computed by '
                       'precedence climbing) + their variable-operand variants; random trees of 2-15 nodes, rendered with minimal '
                       'parentheses and with redundant ones, operands integer/decimal/negative/leading-dot, literal or variable, '
                       '-(e) and -@v. distinct by rendered text; non-trivial = at least two operators of different level, or '
                       'parentheses, or a unit')
    cases = []   # (tree, kind)
    for kind, flat in catalogue():
        t = std_tree(flat)
        if ok_tree(t):
            cases.append((t, kind))
            # the same with variable operands
            tv = std_tree([('v', x[1], x[2], False) if isinstance(x, tuple) else x for x in flat])
            cases.append((tv, kind + '-var'))
    nrand = 2500 if tier == 'quick' else 60000
    tries = 0
    while len(cases) < len(catalogue()) * 2 + nrand and tries < nrand * 30:
        tries += 1
        t = canon(rand_tree(rng, rng.randrange(2, 16)))
        if ok_tree(t):
            cases.append((t, 'random'))
    texts, mtoks = [], []
    for t, _k in cases:
        vs = []
        words = render(t, vs)
        texts.append((text_of(words), vs))
        mtoks.append(' '.join(render(t, [], model=True)))
    try:
        model = C.Driver().run([('c04.eval', m) for m in mtoks])
    except Exception as e:
        model = [None] * len(cases)
        build.ok = False
        build.log += '\nDRIVER: %r' % e

    def rend(i, c):
        txt, vs = texts[i]
        return ''.join('%s:%s;' % (n.replace('@v', '@v%d_' % i), v) for n, v in vs) + '.c%d{x:%s}' % (i, re.sub(r'@v(\d+)', '@v%d_\\1' % i, txt))
    out, errs = C.compile_cases(cases, rend)
    disagreements = []
    for i, (t, kind) in enumerate(cases):
        want_v, want_u = value(t), unit(t)
        if want_v == 0:
            want_u = ''
        got = out.get(i)
        m = NUM_RE.match(got or '')
        ops_used = set(re.findall(r' ([-+*/]) ', texts[i][0]))
        nontriv = ('(' in texts[i][0]) or len({LVL[o] for o in ops_used}) > 1 or bool(want_u)
        chk.count(texts[i], nontrivial=nontriv)
        bad = None
        if not m:
            bad = 'not a number'
        else:
            gv, gu = dec(m.group(1)), m.group(2)
            tol = Fraction(1, 10 ** 9) * max(abs(want_v), maxmag(t) * Fraction(1, 1000))
            if abs(gv - want_v) > tol:
                bad = 'value'
            elif gu != want_u and not (want_v == 0 and gv != 0 and gu == unit(t)):
                # (an exactly-zero total that the double computation misses by rounding noise keeps its unit)
                bad = 'unit'
            elif re.search(r'\.0*$', m.group(1).split('e')[0]) and 'e' not in m.group(1):
                bad = 'integral result printed with a fractional part'
        if bad:
            chk.violation({'kind': 'arith', 'why': bad, 'source': rend(0, None) if False else rend(i, None), 'expression': texts[i][0],
                           'expected': '%s%s' % (str(want_v), want_u), 'actual': got, 'model': model[i], 'case_kind': kind})
            if len(chk.violations) > 6:
                break
        elif model[i] is not None:
            mm = model[i].split(' ')
            try:
                mv = Fraction(mm[0])
                mu = mm[1] if len(mm) > 1 else ''
                if mv != want_v or mu != want_u:
                    disagreements.append((texts[i][0], model[i], got))
            except ValueError:
                disagreements.append((texts[i][0], model[i], got))
    for i, rr in errs[:3]:
        chk.violation({'kind': 'arith-error', 'source': rend(i, None), 'expression': texts[i][0], 'actual': list(rr), 'model': model[i]})
    for k in (0, 40, len(cases) - 1, len(cases) - 2):
        chk.sample({'source': rend(k, None), 'real': out.get(k), 'model': model[k], 'exact': str(value(cases[k][0])) + unit(cases[k][0])})
    # ---- unary minus on a variable wherever a value can stand (the sign is a token of its own until the value is known:
    #      repaired defect C04-negvar); expected = the exact negation, computed here
    sign_cases = []
    for v in ('-3px', '3px', '-.5em', '2', '-12.25', '-7%'):
        q, u = dec(re.match(r'-?[\d.]+', v).group(0)), re.sub(r'^-?[\d.]+', '', v)
        for tmpl, sgn in (('@a:%s;.s{x:-@a}', -1), ('@a:%s;@b:-@a;.s{x:-@b}', 1), ('@a:%s;@b:@a;.s{x:-@b}', -1), ('@a:%s;.s{x:(-@a)}', -1),
                          ('@a:%s;.s{x:-(@a)}', -1), ('@a:%s;.s{x:-(-@a)}', 1), ('@a:%s;.m(@p){x:@p} .s{.m(-@a);}', -1),
                          ('@a:%s;.m(@p){x:-@p} .s{.m(-@a);}', 1), ('@a:%s;.s{y:1px;x:-@a !important}', -1),
                          ('@a:%s;@media print{.s{x:-@a}}', -1), ('@a:%s;.s{.t{x:-@a}}', -1)):
            sign_cases.append((tmpl % v, sgn * q, u))
    for src, want, u in sign_cases:
        r = C.real_compile(src, minify=True)
        m = re.search(r'x:(-?[\d.]+(?:e-?\d+)?)([a-z%]*)', r[1]) if r[0] == 'ok' else None
        chk.count(('sign', src), nontrivial=True)
        if not m or dec(m.group(1)) != want or m.group(2) != u or '--' in r[1]:
            chk.violation({'kind': 'sign', 'source': src, 'expected': 'x:%s%s' % (want, u), 'actual': list(r)[:3]})
    # ---- the sign folding itself: utility.fold_signs against Lessm.Sign.foldSigns on the same token lists (in-process)
    sign_dis = fold_correspondence(rng, 400 if tier == 'quick' else 20000)
    chk.cov['fold_signs_lists_compared'] = sign_dis[0]
    for d in sign_dis[1][:3]:
        disagreements.append(d)
    # ---- known findings are replayed verbatim
    for f in C.known_findings(PROP):
        r = C.real_compile(f['input'], minify=True)
        still = not (r[0] == 'ok' and f['expected_fragment'] in r[1])
        if still:
            chk.known('%s (input %r gives %s)' % (f['what'], f['input'], r[1] if r[0] == 'ok' else r[1:3]))
        else:
            chk.cov.setdefault('known_findings_no_longer_failing', []).append(f['id'])
    chk.cov['disagreements_checked'] = len(disagreements)
    chk.cov['exhaustive'] = False
    chk.cov['catalogue'] = {'operator_pairs_and_triples_x5_unit_modes_x2_operand_kinds': sum(1 for _t, k in cases if k != 'random'),
                            'random_trees': sum(1 for _t, k in cases if k == 'random')}
    C.tie_verdict(chk, build, missing, disagreements, 'Lessm.Expr.evalText (parse genLvl + evalE) vs lesscpy',
                  'operator catalogue and random trees were run against the real code: no failing input')
    return chk.finish()


def replay(path):
    d = json.load(open(path))
    src = d.get('source')
    if not src:
        print('replay: nothing executable in', path)
        return 2
    r = C.real_compile(src, minify=True)
    print('source  :', src)
    print('actual  :', r)
    print('expected:', d.get('expected'))
    bad = True
    if r[0] == 'ok':
        m = C.RULE_RE.search(r[1])
        mm = NUM_RE.match(m.group(2).strip()) if m else None
        em = re.match(r'^(-?\d+(?:/\d+)?)(.*)$', d.get('expected', ''))
        if mm and em:
            want = Fraction(em.group(1))
            bad = abs(dec(mm.group(1)) - want) > Fraction(1, 10 ** 9) * max(1, abs(want)) or mm.group(2) != em.group(2)
    if bad:
        print('VIOLATION property=%s replay=%s' % (PROP, path))
        return 1
    print('replay: property holds on this input now')
    return 0
