"""
C05  Calling a mixin is equivalent to inlining its body with parameters bound.

Proof side : lean/Lessm/Props/C05.lean (model Lessm.Mixin: global table, parameter binding, own frame per
             expansion, depth counter; theorems: definitions emit nothing and may follow their uses, binding
             positional/defaults/missing, expansion = evaluation of the textually substituted body, ...).
Tie        : Lessm.Mixin.compile against the real compiler on random programs: arity 0-4, every subset of
             defaulted parameters, ',' and ';' separators, literal / variable / arithmetic arguments, bodies
             with declarations, nested rules, & selectors and calls, call sites at depth <= 3 and in comma-list
             rules, calls before definitions, guarded recursion of depth 1-12 (quick) / up to 70 (thorough, both
             sides of the limit), plain rules used as mixins.
Oracle     : independent Python inliner (textual substitution of parameters in the body, recursively).
"""
import json
import random
import re

import common as C
import canon
from checks import C02 as N

PROP = 'C05'
PNAMES = ['a', 'b', 'c', 'd']
WORDS = ['red', 'blue', 'solid', '1px', '2em', '10', 'auto', 'x1']
PROPS = ['color', 'width', 'margin', 'top', 'border']


def rand_value(rng, params, p_ref=0.6):
    n = rng.randrange(1, 4)
    toks = []
    for i in range(n):
        if i:
            toks.append(['l', ' '])
        if params and rng.random() < p_ref:
            toks.append(['r', rng.choice(params)])
        else:
            toks.append(['l', rng.choice(WORDS)])
    return toks


def rand_args(rng, n, scope_params):
    args = []
    for _ in range(n):
        r = rng.random()
        if scope_params and r < 0.3:
            args.append({'val': [['r', rng.choice(scope_params)]]})
        else:
            args.append({'val': [['l', rng.choice(WORDS)]]})
    return args


def rand_body(rng, params, mixins, depth, maxdepth, allow_call=True):
    items = []
    for _ in range(rng.randrange(1, 4)):
        r = rng.random()
        if r < 0.5:
            items.append({'d': [rng.choice(PROPS), rand_value(rng, params)]})
        elif r < 0.7 and depth < maxdepth:
            sel = rng.choice([['.n'], ['&', ':', 'hover'], ['.k', ' ', '.j'], ['>', '.g'], ['&', '-z'], ['.p', ',', '.q']])
            items.append({'r': sel, 'b': rand_body(rng, params, mixins, depth + 1, maxdepth, allow_call)})
        elif allow_call and mixins:
            name, arity, ndef = rng.choice(mixins)
            nargs = rng.randrange(arity - ndef, arity + 1)
            items.append({'call': [name, rand_args(rng, nargs, params)]})
        else:
            items.append({'d': [rng.choice(PROPS), rand_value(rng, params)]})
    return items


def rand_program(rng, tier):
    """mixin definitions form a DAG (mixin i may call mixins j < i) plus, sometimes, one guarded recursive mixin"""
    tops = []
    mixins = []
    nm = rng.randrange(1, 4)
    for i in range(nm):
        arity = rng.randrange(0, 4)
        params = rng.sample(PNAMES, arity)
        ndef = rng.randrange(0, arity + 1)
        plist = []
        for k, p in enumerate(params):
            default = None
            if k >= arity - ndef:
                default = [['l', rng.choice(WORDS)]]
            plist.append([p, default])
        body = rand_body(rng, params, list(mixins), 1, 3)
        name = '.m%d' % i
        tops.append({'mdef': {'name': name, 'params': plist, 'guard': [], 'b': body}})
        mixins.append((name, arity, ndef))
    rec = None
    if rng.random() < 0.35:
        # guarded recursion: .loop(@i) when (@i > 0) { w: @i; .loop(@i - 1); }  (declaration before or after the call)
        before = rng.random() < 0.5
        body = [{'d': ['width', [['r', 'i'], ['l', ' '], ['l', 'solid']]]}] if before else []
        body.append({'call': ['.loop', [{'arith': ['i', -1]}]]})
        if not before:
            body.append({'d': ['width', [['r', 'i'], ['l', ' '], ['l', 'solid']]]})
        if rng.random() < 0.4 and mixins:
            name, arity, ndef = mixins[0]
            body.insert(0, {'call': [name, rand_args(rng, arity, ['i'])]})
        tops.append({'mdef': {'name': '.loop', 'params': [['i', None]], 'guard': [[[False, 'i', '>', '0']]], 'b': body}})
        hi = 12 if tier == 'quick' else rng.choice([5, 20, 40, 60, 63])
        rec = rng.randrange(1, hi + 1)
    plain = None
    if rng.random() < 0.3:
        plain = '.plain%d' % rng.randrange(3)
        tops.append({'r': [plain], 'b': rand_body(rng, [], [], 1, 2, False)})
    ncall = rng.randrange(1, 4)
    for c in range(ncall):
        sel = rng.choice([['.c%d' % c], ['.c%d' % c, ',', '.e%d' % c], ['.o', ' ', '.c%d' % c]])
        body = []
        for _ in range(rng.randrange(1, 4)):
            r = rng.random()
            if r < 0.55:
                name, arity, ndef = rng.choice(mixins)
                nargs = rng.randrange(arity - ndef, arity + 1)
                body.append({'call': [name, rand_args(rng, nargs, [])]})
            elif r < 0.7:
                body.append({'d': [rng.choice(PROPS), rand_value(rng, [], 0)]})
            elif r < 0.85:
                name, arity, ndef = rng.choice(mixins)
                body.append({'r': ['.in'], 'b': [{'call': [name, rand_args(rng, arity, [])]}]})
            elif rec is not None:
                body.append({'call': ['.loop', [{'val': [['l', str(rec)]]}]]})
            elif plain is not None:
                body.append({'call': [plain, []]})
        if not body:
            body.append({'d': ['color', [['l', 'red']]]})
        tops.append({'r': sel, 'b': body})
    rng.shuffle(tops)     # calls before definitions, definitions in any position
    # keep the relative order of same-named definitions irrelevant: names are unique here
    return tops


# ---- rendering
def rvalue(v):
    return ''.join(('@' + t[1]) if t[0] == 'r' else t[1] for t in v)


def rarg(a):
    if 'arith' in a:
        n, k = a['arith']
        return '@%s %s %d' % (n, '+' if k >= 0 else '-', abs(k))
    return rvalue(a['val'])


def ritems(items, rng, ind):
    pad = '  ' * ind
    s = ''
    for it in items:
        if 'd' in it:
            s += '%s%s: %s;\n' % (pad, it['d'][0], rvalue(it['d'][1]))
        elif 'call' in it:
            sep = rng.choice([', ', '; ']) if len(it['call'][1]) > 1 else ', '
            s += '%s%s(%s);\n' % (pad, it['call'][0], sep.join(rarg(a) for a in it['call'][1]))
        else:
            s += '%s%s {\n%s%s}\n' % (pad, N.render_tokens(it['r'], rng), ritems(it['b'], rng, ind + 1), pad)
    return s


def render(tops, rng):
    s = ''
    for t in tops:
        if 'mdef' in t:
            m = t['mdef']
            ps = ', '.join(('@%s: %s' % (p, rvalue(d))) if d is not None else '@' + p for p, d in m['params'])
            g = ''
            if m['guard']:
                g = ' when ' + ', '.join(' and '.join('%s(@%s %s %s)' % ('not ' if c[0] else '', c[1], c[2], c[3]) for c in ch) for ch in m['guard'])
            s += '%s(%s)%s {\n%s}\n' % (m['name'], ps, g, ritems(m['b'], rng, 1))
        else:
            s += '%s {\n%s}\n' % (N.render_tokens(t['r'], rng), ritems(t['b'], rng, 1))
    return s


# ---- independent oracle: inline by textual substitution
class Stop(Exception):
    pass


def osub_value(v, env):
    out = []
    for t in v:
        if t[0] == 'r':
            if t[1] not in env:
                raise Stop('unknown ' + t[1])
            out.append(env[t[1]])
        else:
            out.append(t[1])
    return ''.join(out)


def oracle_items(items, env, defs, plains, me, out, depth):
    """returns the declarations that land in the enclosing rule"""
    own = []
    for it in items:
        if 'd' in it:
            own.append((it['d'][0], canon.norm_value(osub_value(it['d'][1], env))))
        elif 'r' in it:
            mine = combined(it['r'], me)
            sub = []
            ds = oracle_items(it['b'], env, defs, plains, mine, sub, 0)
            if ds:
                out.append((mine, ds))
            out.extend(sub)
        else:
            name, args = it['call']
            vals = []
            for a in args:
                if 'arith' in a:
                    n, k = a['arith']
                    base = env[n]
                    m = re.match(r'^(-?\d+)(.*)$', base)
                    r = int(m.group(1)) + k
                    vals.append('0' if r == 0 else '%d%s' % (r, m.group(2)))
                else:
                    vals.append(osub_value(a['val'], env))
            if depth > 64:
                raise Stop('nameerror')
            if name in defs:
                m = defs[name]
                env2 = dict(env)
                ok = True
                bound = []
                for k, (p, d) in enumerate(m['params']):
                    if k < len(vals):
                        env2[p] = vals[k]
                    elif d is not None:
                        env2[p] = osub_value(d, env2)
                    else:
                        ok = False
                    if ok:
                        bound.append(env2[p])
                if ok and m['guard']:
                    ok = any(all(cond_ok(c, env2) for c in ch) for ch in m['guard'])
                if ok:
                    own += oracle_items(m['b'], env2, defs, plains, me, out, depth + 1)
            elif name in plains:
                own += oracle_items(plains[name], env, defs, plains, me, out, depth + 1)
    return own


def cond_ok(c, env):
    neg, p, op, lit = c
    m = re.match(r'^(-?\d+(?:\.\d+)?)', env.get(p, ''))
    if not m:
        return False
    a, b = float(m.group(1)), float(lit)
    r = {'>': a > b, '<': a < b, '=': a == b, '>=': a >= b, '=<': a <= b}[op]
    return (not r) if neg else r


def combined(toks, parents):
    out = []
    N.oracle_flat({'r': toks, 'b': [{'d': ['x', 'y']}]}, parents, out)
    return out[0][0]


def oracle(tops):
    defs = {t['mdef']['name']: t['mdef'] for t in tops if 'mdef' in t}
    plains = {''.join(t['r']).strip(): t['b'] for t in tops if 'r' in t}
    res = []
    for t in tops:
        if 'r' in t:
            mine = combined(t['r'], None)
            sub = []
            ds = oracle_items(t['b'], {}, defs, plains, mine, sub, 0)
            if ds:
                res.append((mine, ds))
            res.extend(sub)
    return res


def observe(css):
    return [(sorted(s), [(p, v) for p, v, _ in d]) for _c, s, d in canon.rules(css)]


# ---- repeated expansion: a mixin body is expanded afresh for every call (no value, string or condition of one expansion may survive into
# ---- the next).  Bodies are drawn from a pool of declarations and nested constructs that depend on the parameter; the same sheet with the
# ---- calls `.m(v1)` `.m(v2)` ... in separate rules must give, rule by rule, what the sheets with a single call give.
REPEAT_DECLS = [
    'width: @p * 2;', 'height: (@p + 1px) * 3;', 'margin: -(@p * 2) 0;', 'top: 10px - -(@p * 2) + 1;', 'left: -(@p + 1px) * 4;', 'padding: -@p;',
    'color: lighten(#336699, @k * 2);', 'background: darken(#aabbcc, @k + 5%);', 'border-color: spin(#ff0000, @k * 3);', 'outline-color: mix(#000, #fff, @k * 2);',
    'content: "v@{p}";', 'quotes: "a@{p}" "b@{k}";', 'font-family: ~"f-@{p}";', 'background-image: url("img-@{p}.png");',
    '.n-@{i} { z-index: @i; }', '.in { min-width: @p; .deep-@{i} { max-width: @p * 2; } }', '&-s@{i} { right: @p; }',
    '@media (min-width: @p) { bottom: @p; }', '@media screen { .q { top: @p; } }', '.inner("t@{i}");', '.inner2(@p * 2);', '.inner3(~"e@{i}");',
]
REPEAT_HELPERS = '.inner(@s){ content: @s; }\n.inner2(@z){ max-height: @z; }\n.inner3(@e){ font-family: @e; }\n'
REPEAT_ARGS = [('1px', '5%', '1'), ('3.5px', '10%', '2'), ('20px', '15%', '3'), ('0.5px', '1%', '4')]


def repeat_case(rng):
    body = ' '.join(rng.sample(REPEAT_DECLS, rng.randrange(2, 6)))
    args = rng.sample(REPEAT_ARGS, rng.randrange(2, 4))
    mixin = REPEAT_HELPERS + '.m(@p, @k, @i){ %s }\n' % body
    wrap = rng.choice(['%s', '%s', '@media print { %s }'])
    rules = ['.r%d { .m(%s, %s, %s); }' % (j, a[0], a[1], a[2]) for j, a in enumerate(args)]
    together = mixin + '\n'.join(wrap % r for r in rules) + '\n'
    singles = [mixin + (wrap % r) + '\n' for r in rules]
    return together, singles



def loop_case(rng):
    """the same bodies inside a guarded recursion: iteration j must produce what a single call with the values of j produces"""
    decls = [d for d in rng.sample(REPEAT_DECLS, rng.randrange(2, 6)) if not d.startswith('@media')]
    body = ' '.join(decls)
    n = rng.randrange(2, 5)
    loop = REPEAT_HELPERS + '.loop(@i) when (@i > 0) { .it@{i} { @p: (@i * 1px); @k: (@i * 1%%); %s } .loop(@i - 1); }\n.loop(%d);\n' % (body, n)
    singles = [REPEAT_HELPERS + '.m(@p, @k, @i){ %s }\n.it%d { .m(%dpx, %d%%, %d); }\n' % (body, j, j, j, j) for j in range(1, n + 1)]
    return loop, singles, n


def rules_with_prefix(css, prefix):
    out = []
    for ctx, sels, decls in canon.rules(css):
        if any(x == prefix or x.startswith(prefix + ' ') or x.startswith(prefix + '-') or x.startswith(prefix + ':') for x in sels):
            out.append((tuple(ctx) if isinstance(ctx, (list, tuple)) else ctx, tuple(sels), tuple((p_, v_) for p_, v_, _i in decls)))
    return out


def rules_by_prefix(css, j):
    """the rules of the output that belong to calling rule .r<j> (selector or media content mentioning it), as canonical text"""
    out = []
    for ctx, sels, decls in canon.rules(css):
        if any(('.r%d' % j) == x or x.startswith('.r%d ' % j) or x.startswith('.r%d-' % j) or x.startswith('.r%d:' % j) for x in sels):
            out.append((tuple(ctx) if isinstance(ctx, (list, tuple)) else ctx, tuple(sels), tuple((p_, v_) for p_, v_, _i in decls)))
    return out


def run(tier):
    chk = C.Check(PROP, tier, 'proof')
    rng = random.Random(C.seed() * 141650939 + 5)
    build = C.lean_build(PROP)
    import os
    audit = open(os.path.join(C.LEAN, 'Lessm', 'Audit', 'C05.lean')).read()
    theorems = ['Lessm.Mixin.' + t for t in re.findall(r'#print axioms (\S+)', audit)]
    missing = chk.set_proof(build, theorems, 'cd lean && lake build Lessm.Props.C05 Lessm.Audit.C05 && lake env lean Lessm/Audit/C05.lean')
    chk.cov['trusted_base'] = C.TRUSTED_BASE
    chk.cov['rule'] = ('random programs of 1-3 mixins (arity 0-3, defaulted suffixes, bodies with declarations, nested rules, & and calls to '
                       'earlier mixins), an optional guarded recursive mixin, an optional plain rule used as mixin, 1-3 calling rules '
                       '(also comma lists and nested call sites), all top-level items shuffled. distinct by source; non-trivial = a call with '
                       'arguments inside a body, a recursion, or a call before its definition')
    n = 900 if tier == 'quick' else 20000
    progs = [rand_program(rng, tier) for _ in range(n)]
    srcs = [render(p, rng) for p in progs]
    try:
        model = [json.loads(x) for x in C.Driver().run([('c05.run', json.dumps(p)) for p in progs])]
    except Exception as e:
        model = [None] * len(progs)
        build.ok = False
        build.log += '\nDRIVER: %r' % e
    res = C.compile_many([(s, dict(minify=True)) for s in srcs])
    disagreements = []
    stats = {'recursive': 0, 'errors': 0, 'plain_rule_as_mixin': 0}
    for i, (p, src, r) in enumerate(zip(progs, srcs, res)):
        nontriv = '.loop(' in src or re.search(r'\(@\w', src) is not None
        chk.count(src, nontrivial=nontriv)
        if '.loop' in src:
            stats['recursive'] += 1
        if '.plain' in src:
            stats['plain_rule_as_mixin'] += 1
        try:
            want = ('ok', [(sorted(s), d) for s, d in oracle(p)])
        except Stop as e:
            want = ('err', str(e))
            stats['errors'] += 1
        if r[0] == 'ok':
            real = ('ok', observe(r[1]))
        else:
            real = ('err', r[1], 'CompilationError' in r[3])
        ok = (want[0] == real[0]) and (want[1] == real[1] if want[0] == 'ok' else real[2])
        if not ok:
            chk.violation({'kind': 'mixin', 'source': src, 'expected': list(want), 'actual': r[1] if r[0] == 'ok' else list(r[:3]), 'model': model[i]})
            if len(chk.violations) > 5:
                break
            continue
        if model[i] is not None:
            m = model[i]
            if isinstance(m, dict):
                same = real[0] == 'err'
            else:
                same = real[0] == 'ok' and [(sorted(canon.norm_selector(x) for x in s), [(a, canon.norm_value(b)) for a, b in d]) for s, d in m] == real[1]
            if not same:
                disagreements.append((src, m, r[1] if r[0] == 'ok' else list(r[:3])))
    for k in (0, 11, len(progs) - 1):
        chk.sample({'source': srcs[k], 'real': res[k][1] if res[k][0] == 'ok' else list(res[k][:3]), 'model': model[k]})
    C.replay_known(chk, PROP)
    chk.cov['disagreements_checked'] = len(disagreements)
    chk.cov['exhaustive'] = False
    chk.cov['distribution'] = stats
    # ---- a candidate whose guard fails contributes nothing, not even its parameter bindings (the sheet without it gives the same CSS);
    # ---- calls through a namespace: every call of the body is expanded, in any order of plain-rule calls and sibling-mixin calls
    fixed = []
    for extra in ('@b: 10', '@b: 10; @c: red', '@q: 1px'):
        for glob in ('@b: 7;', '@b: 7; @c: blue;', ''):
            cand = '.m(@a; %s) when (@a > 5) { width: @b }\n' % extra
            rest = '.m(@a) { height: @a; top: @b }\n%s\n.x { .m(1); }\n.y { .m(9%s); }\n' % (glob, '')
            fixed.append(('candidate-frame', cand + rest.replace('.y { .m(9); }\n', ''), rest.replace('.y { .m(9); }\n', '')))
    for body in ('.plain(); .leaf();', '.leaf(); .plain();', '.plain; .leaf; .leaf();', '.leaf(); .plain(); .leaf2();', '.plain(); .plain2; .leaf2(); .leaf();'):
        ns = '.ns { .leaf(){height:2px} .leaf2(){top:3px} .outer(){ %s } }\n.plain{color:red}\n.plain2{left:0}\n' % body
        want = ''.join({'.plain()': 'color:red;', '.plain': 'color:red;', '.leaf()': 'height:2px;', '.leaf': 'height:2px;', '.leaf2()': 'top:3px;', '.plain2': 'left:0;'}[c_.strip()]
                       for c_ in body.rstrip(';').split(';'))
        for call in ('.ns > .outer();', '.ns .outer;', '.ns > .outer;'):
            fixed.append(('namespace', ns + '.x{ %s }\n' % call, want))
    fres = C.compile_many([(a_, dict(minify=True)) for _k, a_, _b in fixed] + [(b_, dict(minify=True)) for k_, _a, b_ in fixed if k_ == 'candidate-frame'])
    nb = 0
    for k, (kind, a_, b_) in enumerate(fixed):
        chk.count((kind, a_), nontrivial=True)
        ra = fres[k]
        if kind == 'candidate-frame':
            rb = fres[len(fixed) + nb]
            nb += 1
            same = (ra[0] == rb[0]) and (ra[0] != 'ok' or ra[1] == rb[1]) and (ra[0] == 'ok' or 'SyntaxError' in ra[3])
            if not same:
                chk.violation({'kind': 'candidate-frame', 'source': a_, 'expected': rb[1] if rb[0] == 'ok' else list(rb[:3]), 'actual': ra[1] if ra[0] == 'ok' else list(ra[:3]),
                               'problem': 'a mixin candidate whose guard fails must contribute nothing: the sheet without it compiles differently', 'without': b_})
                break
        else:
            got = ra[1].split('.x{', 1)[1].split('}')[0] if ra[0] == 'ok' and '.x{' in ra[1] else None
            if got != b_:
                chk.violation({'kind': 'namespace', 'source': a_, 'expected': '.x{%s}' % b_, 'actual': ra[1] if ra[0] == 'ok' else list(ra[:3])})
                break
    stats['fixed_families'] = len(fixed)
    # ---- a call equals its body written out by hand with the arguments in place, in positions the random programs do not reach:
    #      a caller-local variable shadowing an outer one inside an argument (seeded C05-5), parameters in media queries with a
    #      same-named variable defined before or after (seeded C07-6, repaired C05-param-in-media-query), calls inside an @media block
    #      of a rule (repaired C05-call-in-media)
    equiv = []
    for outer, local, arg, val in (('10px', '20px', '@w + 1', '21px'), ('10px', '20px', '@w', '20px'), ('3', '4', '@w * 2', '8'), ('1em', '2em', '@w', '2em')):
        equiv.append(('@w: %s;\n.m(@x) { width: @x; }\n.a { @w: %s; .m(%s); }\n' % (outer, local, arg), '@w: %s;\n.a { @w: %s; width: %s; }\n' % (outer, local, val)))
        equiv.append(('@w: %s;\n.m(@x; @y: 2px) { margin: @x @y; }\n.a { .b { @w: %s; .m(%s); } }\n' % (outer, local, arg), '.a { .b { margin: %s 2px; } }\n' % val))
    for pre, post in (('', '@w: 9px;'), ('@w: 1px;', ''), ('', '')):
        equiv.append(('%s .m(@w) { .k { @media screen and (min-width: @w) { x: y } } @media (max-width: @w) { z: v } } .a, .b { .m(5px); } %s' % (pre, post),
                      '.a, .b { .k { @media screen and (min-width: 5px) { x: y } } @media (max-width: 5px) { z: v } }'))
        equiv.append(('%s .m(@q; @w: 2px) { @media (min-width: @w) { x: @q } } .a { .m(5px; 7px); } .b { .m(6px); } %s' % (pre, post),
                      '.a { @media (min-width: 7px) { x: 5px } } .b { @media (min-width: 2px) { x: 6px } }'))
    for body, inl in (('.q{x:y}', '.q{x:y}'), ('&:hover{x:y}', '&:hover{x:y}'), ('top:0; .q{x:y} &-s{left:0}', 'top:0; .q{x:y} &-s{left:0}')):
        equiv.append(('.m(){%s} .a{@media print{.m();}}' % body, '.a{@media print{%s}}' % inl))
        equiv.append(('.m(){%s} .a{.b{@media print{@media (color){.m();}}}}' % body, '.a{.b{@media print{@media (color){%s}}}}' % inl))
        equiv.append(('.m(){%s} @media print{.a{.m();}}' % body, '@media print{.a{%s}}' % inl))
    eres = C.compile_many([(a_, dict(minify=True)) for a_, _b in equiv] + [(b_, dict(minify=True)) for _a, b_ in equiv])
    for k, (a_, b_) in enumerate(equiv):
        ra, rb = eres[k], eres[len(equiv) + k]
        chk.count(('equiv', a_), nontrivial=True)
        if rb[0] != 'ok':
            continue          # the hand-inlined text is outside what the compiler accepts: not this oracle's business
        if ra[0] != 'ok' or ra[1].strip() != rb[1].strip():
            chk.violation({'kind': 'inline-equivalence', 'source': a_, 'inlined': b_, 'expected': rb[1], 'actual': ra[1] if ra[0] == 'ok' else list(ra[:3]),
                           'problem': 'the sheet with the mixin call compiles differently from the sheet with the body written in place'})
            if len(chk.violations) > 5:
                break
    stats['inline_equivalences'] = len(equiv)
    # ---- repeated expansion (see REPEAT_DECLS)
    nrep = 120 if tier == 'quick' else 2500
    rcases = [repeat_case(rng) for _ in range(nrep)]
    rjobs = []
    for together, singles in rcases:
        rjobs.append((together, dict(minify=True)))
        rjobs += [(s_, dict(minify=True)) for s_ in singles]
    rres = C.compile_many(rjobs)
    pos = 0
    stats['repeat_cases'] = nrep
    for together, singles in rcases:
        rt = rres[pos]
        rs = rres[pos + 1:pos + 1 + len(singles)]
        pos += 1 + len(singles)
        chk.count(('repeat', together), nontrivial=True)
        if len(chk.violations) > 5:
            break
        if any(r_[0] != 'ok' for r_ in rs):
            continue                                  # a body outside what the compiler accepts: not this oracle's business
        if rt[0] != 'ok':
            chk.violation({'kind': 'repeat-error', 'source': together, 'expected': 'compiles like each call alone', 'actual': list(rt[:3])})
            continue
        for j, r_ in enumerate(rs):
            want = rules_by_prefix(r_[1], j)
            got = rules_by_prefix(rt[1], j)
            if want != got:
                chk.violation({'kind': 'repeat', 'source': together, 'call': j, 'expected': [list(map(list, w[1:])) for w in want],
                               'actual': [list(map(list, g[1:])) for g in got], 'single_source': singles[j],
                               'problem': 'the rules produced for calling rule .r%d differ from those of the sheet with that call alone' % j})
                break
    # ---- the same inside a guarded recursion (the nodes of the body are shared by all iterations)
    nloop = 60 if tier == 'quick' else 1200
    lcases = [loop_case(rng) for _ in range(nloop)]
    ljobs = []
    for loop, singles, _n in lcases:
        ljobs.append((loop, dict(minify=True)))
        ljobs += [(s_, dict(minify=True)) for s_ in singles]
    lres = C.compile_many(ljobs)
    pos = 0
    stats['loop_cases'] = nloop
    stats['loop_cases_compared'] = 0
    for loop, singles, n_ in lcases:
        rt = lres[pos]
        rs = lres[pos + 1:pos + 1 + len(singles)]
        pos += 1 + len(singles)
        chk.count(('loop', loop), nontrivial=True)
        if len(chk.violations) > 5:
            break
        if any(r_[0] != 'ok' for r_ in rs):
            continue
        if rt[0] != 'ok':
            chk.violation({'kind': 'loop-error', 'source': loop, 'expected': 'compiles like each call alone', 'actual': list(rt[:3])})
            continue
        stats['loop_cases_compared'] += 1
        for j, r_ in enumerate(rs, 1):
            want = rules_with_prefix(r_[1], '.it%d' % j)
            got = rules_with_prefix(rt[1], '.it%d' % j)
            if want != got:
                chk.violation({'kind': 'loop', 'source': loop, 'iteration': j, 'expected': [list(map(list, w[1:])) for w in want],
                               'actual': [list(map(list, g[1:])) for g in got], 'single_source': singles[j - 1],
                               'problem': 'iteration %d of the recursion produced something else than the single call with its values' % j})
                break
    C.tie_verdict(chk, build, missing, disagreements, 'Lessm.Mixin.compile vs lesscpy',
                  'random mixin programs were run against the inlining oracle: no failing input')
    return chk.finish()


def replay(path):
    d = json.load(open(path))
    src = d.get('source')
    if not src:
        print('replay: nothing executable in', path)
        return 2
    r = C.real_compile(src, minify=True)
    print('source  :', src)
    print('actual  :', r)
    print('expected:', d.get('expected'))
    exp = d.get('expected')
    if r[0] == 'ok':
        bad = not (exp and exp[0] == 'ok' and [[a, [list(x) for x in b]] for a, b in observe(r[1])] == [[a, [list(x) for x in b]] for a, b in exp[1]])
    else:
        bad = not (exp and exp[0] == 'err' and 'CompilationError' in r[3])
    if bad:
        print('VIOLATION property=%s replay=%s' % (PROP, path))
        return 1
    print('replay: property holds on this input now')
    return 0
