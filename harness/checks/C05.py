"""
C05  Calling a mixin is equivalent to inlining its body with parameters bound.

Proof side : lean/Lessm/Props/C05.lean (model Lessm.Mixin: global table, parameter binding, own frame per
             expansion, depth counter; theorems: definitions emit nothing and may follow their uses, binding
             positional/defaults/missing, expansion = evaluation of the textually substituted body, ...).
Tie        : Lessm.Mixin.compile against the real compiler on random programs: arity 0-4, every subset of
             defaulted parameters, ',' and ';' separators, literal / variable / arithmetic arguments, bodies
             with declarations, nested rules, & selectors and calls, call sites at depth <= 3 and in comma-list
             rules, calls before definitions, guarded recursion of depth 1-12 (quick) / up to 70 (thorough, both
             sides of the limit), plain rules used as mixins.
Oracle     : independent Python inliner (textual substitution of parameters in the body, recursively).
"""
import json
import random
import re

import common as C
import canon
from checks import C02 as N

PROP = 'C05'
PNAMES = ['a', 'b', 'c', 'd']
WORDS = ['red', 'blue', 'solid', '1px', '2em', '10', 'auto', 'x1']
PROPS = ['color', 'width', 'margin', 'top', 'border']


def rand_value(rng, params, p_ref=0.6):
    n = rng.randrange(1, 4)
    toks = []
    for i in range(n):
        if i:
            toks.append(['l', ' '])
        if params and rng.random() < p_ref:
            toks.append(['r', rng.choice(params)])
        else:
            toks.append(['l', rng.choice(WORDS)])
    return toks


def rand_args(rng, n, scope_params):
    args = []
    for _ in range(n):
        r = rng.random()
        if scope_params and r < 0.3:
            args.append({'val': [['r', rng.choice(scope_params)]]})
        else:
            args.append({'val': [['l', rng.choice(WORDS)]]})
    return args


def rand_body(rng, params, mixins, depth, maxdepth, allow_call=True):
    items = []
    for _ in range(rng.randrange(1, 4)):
        r = rng.random()
        if r < 0.5:
            items.append({'d': [rng.choice(PROPS), rand_value(rng, params)]})
        elif r < 0.7 and depth < maxdepth:
            sel = rng.choice([['.n'], ['&', ':', 'hover'], ['.k', ' ', '.j'], ['>', '.g'], ['&', '-z'], ['.p', ',', '.q']])
            items.append({'r': sel, 'b': rand_body(rng, params, mixins, depth + 1, maxdepth, allow_call)})
        elif allow_call and mixins:
            name, arity, ndef = rng.choice(mixins)
            nargs = rng.randrange(arity - ndef, arity + 1)
            items.append({'call': [name, rand_args(rng, nargs, params)]})
        else:
            items.append({'d': [rng.choice(PROPS), rand_value(rng, params)]})
    return items


def rand_program(rng, tier):
    """mixin definitions form a DAG (mixin i may call mixins j < i) plus, sometimes, one guarded recursive mixin"""
    tops = []
    mixins = []
    nm = rng.randrange(1, 4)
    for i in range(nm):
        arity = rng.randrange(0, 4)
        params = rng.sample(PNAMES, arity)
        ndef = rng.randrange(0, arity + 1)
        plist = []
        for k, p in enumerate(params):
            default = None
            if k >= arity - ndef:
                default = [['l', rng.choice(WORDS)]]
            plist.append([p, default])
        body = rand_body(rng, params, list(mixins), 1, 3)
        name = '.m%d' % i
        tops.append({'mdef': {'name': name, 'params': plist, 'guard': [], 'b': body}})
        mixins.append((name, arity, ndef))
    rec = None
    if rng.random() < 0.35:
        # guarded recursion: .loop(@i) when (@i > 0) { w: @i; .loop(@i - 1); }  (declaration before or after the call)
        before = rng.random() < 0.5
        body = [{'d': ['width', [['r', 'i'], ['l', ' '], ['l', 'solid']]]}] if before else []
        body.append({'call': ['.loop', [{'arith': ['i', -1]}]]})
        if not before:
            body.append({'d': ['width', [['r', 'i'], ['l', ' '], ['l', 'solid']]]})
        if rng.random() < 0.4 and mixins:
            name, arity, ndef = mixins[0]
            body.insert(0, {'call': [name, rand_args(rng, arity, ['i'])]})
        tops.append({'mdef': {'name': '.loop', 'params': [['i', None]], 'guard': [[[False, 'i', '>', '0']]], 'b': body}})
        hi = 12 if tier == 'quick' else rng.choice([5, 20, 40, 60, 63])
        rec = rng.randrange(1, hi + 1)
    plain = None
    if rng.random() < 0.3:
        plain = '.plain%d' % rng.randrange(3)
        tops.append({'r': [plain], 'b': rand_body(rng, [], [], 1, 2, False)})
    ncall = rng.randrange(1, 4)
    for c in range(ncall):
        sel = rng.choice([['.c%d' % c], ['.c%d' % c, ',', '.e%d' % c], ['.o', ' ', '.c%d' % c]])
        body = []
        for _ in range(rng.randrange(1, 4)):
            r = rng.random()
            if r < 0.55:
                name, arity, ndef = rng.choice(mixins)
                nargs = rng.randrange(arity - ndef, arity + 1)
                body.append({'call': [name, rand_args(rng, nargs, [])]})
            elif r < 0.7:
                body.append({'d': [rng.choice(PROPS), rand_value(rng, [], 0)]})
            elif r < 0.85:
                name, arity, ndef = rng.choice(mixins)
                body.append({'r': ['.in'], 'b': [{'call': [name, rand_args(rng, arity, [])]}]})
            elif rec is not None:
                body.append({'call': ['.loop', [{'val': [['l', str(rec)]]}]]})
            elif plain is not None:
                body.append({'call': [plain, []]})
        if not body:
            body.append({'d': ['color', [['l', 'red']]]})
        tops.append({'r': sel, 'b': body})
    rng.shuffle(tops)     # calls before definitions, definitions in any position
    # keep the relative order of same-named definitions irrelevant: names are unique here
    return tops


# ---- rendering
def rvalue(v):
    return ''.join(('@' + t[1]) if t[0] == 'r' else t[1] for t in v)


def rarg(a):
    if 'arith' in a:
        n, k = a['arith']
        return '@%s %s %d' % (n, '+' if k >= 0 else '-', abs(k))
    return rvalue(a['val'])


def ritems(items, rng, ind):
    pad = '  ' * ind
    s = ''
    for it in items:
        if 'd' in it:
            s += '%s%s: %s;\n' % (pad, it['d'][0], rvalue(it['d'][1]))
        elif 'call' in it:
            sep = rng.choice([', ', '; ']) if len(it['call'][1]) > 1 else ', '
            s += '%s%s(%s);\n' % (pad, it['call'][0], sep.join(rarg(a) for a in it['call'][1]))
        else:
            s += '%s%s {\n%s%s}\n' % (pad, N.render_tokens(it['r'], rng), ritems(it['b'], rng, ind + 1), pad)
    return s


def render(tops, rng):
    s = ''
    for t in tops:
        if 'mdef' in t:
            m = t['mdef']
            ps = ', '.join(('@%s: %s' % (p, rvalue(d))) if d is not None else '@' + p for p, d in m['params'])
            g = ''
            if m['guard']:
                g = ' when ' + ', '.join(' and '.join('%s(@%s %s %s)' % ('not ' if c[0] else '', c[1], c[2], c[3]) for c in ch) for ch in m['guard'])
            s += '%s(%s)%s {\n%s}\n' % (m['name'], ps, g, ritems(m['b'], rng, 1))
        else:
            s += '%s {\n%s}\n' % (N.render_tokens(t['r'], rng), ritems(t['b'], rng, 1))
    return s


# ---- independent oracle: inline by textual substitution
class Stop(Exception):
    pass


def osub_value(v, env):
    out = []
    for t in v:
        if t[0] == 'r':
            if t[1] not in env:
                raise Stop('unknown ' + t[1])
            out.append(env[t[1]])
        else:
            out.append(t[1])
    return ''.join(out)


def oracle_items(items, env, defs, plains, me, out, depth):
    """returns the declarations that land in the enclosing rule"""
    own = []
    for it in items:
        if 'd' in it:
            own.append((it['d'][0], canon.norm_value(osub_value(it['d'][1], env))))
        elif 'r' in it:
            mine = combined(it['r'], me)
            sub = []
            ds = oracle_items(it['b'], env, defs, plains, mine, sub, 0)
            if ds:
                out.append((mine, ds))
            out.extend(sub)
        else:
            name, args = it['call']
            vals = []
            for a in args:
                if 'arith' in a:
                    n, k = a['arith']
                    base = env[n]
                    m = re.match(r'^(-?\d+)(.*)$', base)
                    r = int(m.group(1)) + k
                    vals.append('0' if r == 0 else '%d%s' % (r, m.group(2)))
                else:
                    vals.append(osub_value(a['val'], env))
            if depth > 64:
                raise Stop('nameerror')
            if name in defs:
                m = defs[name]
                env2 = dict(env)
                ok = True
                bound = []
                for k, (p, d) in enumerate(m['params']):
                    if k < len(vals):
                        env2[p] = vals[k]
                    elif d is not None:
                        env2[p] = osub_value(d, env2)
                    else:
                        ok = False
                    if ok:
                        bound.append(env2[p])
                if ok and m['guard']:
                    ok = any(all(cond_ok(c, env2) for c in ch) for ch in m['guard'])
                if ok:
                    own += oracle_items(m['b'], env2, defs, plains, me, out, depth + 1)
            elif name in plains:
                own += oracle_items(plains[name], env, defs, plains, me, out, depth + 1)
    return own


def cond_ok(c, env):
    neg, p, op, lit = c
    m = re.match(r'^(-?\d+(?:\.\d+)?)', env.get(p, ''))
    if not m:
        return False
    a, b = float(m.group(1)), float(lit)
    r = {'>': a > b, '<': a < b, '=': a == b, '>=': a >= b, '=<': a <= b}[op]
    return (not r) if neg else r


def combined(toks, parents):
    out = []
    N.oracle_flat({'r': toks, 'b': [{'d': ['x', 'y']}]}, parents, out)
    return out[0][0]


def oracle(tops):
    defs = {t['mdef']['name']: t['mdef'] for t in tops if 'mdef' in t}
    plains = {''.join(t['r']).strip(): t['b'] for t in tops if 'r' in t}
    res = []
    for t in tops:
        if 'r' in t:
            mine = combined(t['r'], None)
            sub = []
            ds = oracle_items(t['b'], {}, defs, plains, mine, sub, 0)
            if ds:
                res.append((mine, ds))
            res.extend(sub)
    return res


def observe(css):
    return [(sorted(s), [(p, v) for p, v, _ in d]) for _c, s, d in canon.rules(css)]


def run(tier):
    chk = C.Check(PROP, tier, 'proof')
    rng = random.Random(C.seed() * 141650939 + 5)
    build = C.lean_build(PROP)
    import os
    audit = open(os.path.join(C.LEAN, 'Lessm', 'Audit', 'C05.lean')).read()
    theorems = ['Lessm.Mixin.' + t for t in re.findall(r'#print axioms (\S+)', audit)]
    missing = chk.set_proof(build, theorems, 'cd lean && lake build Lessm.Props.C05 Lessm.Audit.C05 && lake env lean Lessm/Audit/C05.lean')
    chk.cov['trusted_base'] = C.TRUSTED_BASE
    chk.cov['rule'] = ('random programs of 1-3 mixins (arity 0-3, defaulted suffixes, bodies with declarations, nested rules, & and calls to '
                       'earlier mixins), an optional guarded recursive mixin, an optional plain rule used as mixin, 1-3 calling rules '
                       '(also comma lists and nested call sites), all top-level items shuffled. distinct by source; non-trivial = a call with '
                       'arguments inside a body, a recursion, or a call before its definition')
    n = 900 if tier == 'quick' else 20000
    progs = [rand_program(rng, tier) for _ in range(n)]
    srcs = [render(p, rng) for p in progs]
    try:
        model = [json.loads(x) for x in C.Driver().run([('c05.run', json.dumps(p)) for p in progs])]
    except Exception as e:
        model = [None] * len(progs)
        build.ok = False
        build.log += '\nDRIVER: %r' % e
    res = C.compile_many([(s, dict(minify=True)) for s in srcs])
    disagreements = []
    stats = {'recursive': 0, 'errors': 0, 'plain_rule_as_mixin': 0}
    for i, (p, src, r) in enumerate(zip(progs, srcs, res)):
        nontriv = '.loop(' in src or re.search(r'\(@\w', src) is not None
        chk.count(src, nontrivial=nontriv)
        if '.loop' in src:
            stats['recursive'] += 1
        if '.plain' in src:
            stats['plain_rule_as_mixin'] += 1
        try:
            want = ('ok', [(sorted(s), d) for s, d in oracle(p)])
        except Stop as e:
            want = ('err', str(e))
            stats['errors'] += 1
        if r[0] == 'ok':
            real = ('ok', observe(r[1]))
        else:
            real = ('err', r[1], 'CompilationError' in r[3])
        ok = (want[0] == real[0]) and (want[1] == real[1] if want[0] == 'ok' else real[2])
        if not ok:
            chk.violation({'kind': 'mixin', 'source': src, 'expected': list(want), 'actual': r[1] if r[0] == 'ok' else list(r[:3]), 'model': model[i]})
            if len(chk.violations) > 5:
                break
            continue
        if model[i] is not None:
            m = model[i]
            if isinstance(m, dict):
                same = real[0] == 'err'
            else:
                same = real[0] == 'ok' and [(sorted(canon.norm_selector(x) for x in s), [(a, canon.norm_value(b)) for a, b in d]) for s, d in m] == real[1]
            if not same:
                disagreements.append((src, m, r[1] if r[0] == 'ok' else list(r[:3])))
    for k in (0, 11, len(progs) - 1):
        chk.sample({'source': srcs[k], 'real': res[k][1] if res[k][0] == 'ok' else list(res[k][:3]), 'model': model[k]})
    C.replay_known(chk, PROP)
    chk.cov['disagreements_checked'] = len(disagreements)
    chk.cov['exhaustive'] = False
    chk.cov['distribution'] = stats
    C.tie_verdict(chk, build, missing, disagreements, 'Lessm.Mixin.compile vs lesscpy',
                  'random mixin programs were run against the inlining oracle: no failing input')
    return chk.finish()


def replay(path):
    d = json.load(open(path))
    src = d.get('source')
    if not src:
        print('replay: nothing executable in', path)
        return 2
    r = C.real_compile(src, minify=True)
    print('source  :', src)
    print('actual  :', r)
    print('expected:', d.get('expected'))
    exp = d.get('expected')
    if r[0] == 'ok':
        bad = not (exp and exp[0] == 'ok' and [[a, [list(x) for x in b]] for a, b in observe(r[1])] == [[a, [list(x) for x in b]] for a, b in exp[1]])
    else:
        bad = not (exp and exp[0] == 'err' and 'CompilationError' in r[3])
    if bad:
        print('VIOLATION property=%s replay=%s' % (PROP, path))
        return 1
    print('replay: property holds on this input now')
    return 0
