"""
C20  Compilation always terminates; runaway self-reference ends in an error.

Proof side : lean/Lessm/Props/C20.lean (variables: Lessm.Term.process with the nesting budget and the round limit of
             node.py; imports: Lessm.Term.loadUnits with the level limit of parser.py) and lean/Lessm/Props/C20Mixin.lean
             (Lessm.Mixin.evalItems: the depth limit of deferred.py alone bounds the recursion).  All model functions
             are total Lean definitions whose only counters are the ones the code has.
Tie        : (a) random variable dependency graphs (acyclic, cyclic, with undefined names, with nested expressions) and
             chains on both sides of the nesting limit: Lessm.Term.eval vs lesscpy;  (b) random import graphs written
             to scratch directories (cycles, self imports, chains of 1..13 files, missing files): Lessm.Term.compileFile vs
             the parser;  (c) mixin recursion families (self, mutual cycles of length 1..100, through nested rules,
             guarded count-downs 1..70): Lessm.Mixin.compile (driver op c05.run) vs lesscpy.
Oracle     : independent of Lean: every compilation ends within a wall-clock bound proportional to the size of its
             expanded output, as a result or a CompilationError - never a timeout, RecursionError or any other exception;
             inputs the generator built with a reachable cycle must be errors; acyclic / guarded inputs inside the
             limits must expand completely (counts computed by the generator's own expansion).
"""
import io
import json
import os
import random
import shutil
import tempfile
import time

import common as C

PROP = 'C20'
THEOREMS = []          # filled from the audit files below
AUDITS = ['C20', 'C20Mixin']
TIME_BASE = 15.0       # seconds allowed for any compilation, plus TIME_PER_KB per KB of output
TIME_PER_KB = 0.5


# --------------------------------------------------------------------------------------------- variables

def rand_scalar(rng, names, depth=0):
    r = rng.random()
    if r < 0.3 or not names:
        return {'l': '1'}
    if r < 0.75 or depth >= 3:
        return {'r': rng.choice(names)}
    return {'n': [rand_scalar(rng, names, depth + 1), rand_scalar(rng, names, depth + 1)]}


def rand_var_case(rng):
    n = rng.randrange(1, 9)
    names = ['v%d' % i for i in range(n)]
    kind = rng.random()
    env = []
    if kind < 0.45:                       # acyclic: v_i only refers to v_j, j > i
        for i, nm in enumerate(names):
            env.append([nm, [rand_scalar(rng, names[i + 1:])]])
    else:                                 # anything goes (cycles likely)
        for nm in names:
            env.append([nm, [rand_scalar(rng, names)]])
    if rng.random() < 0.12:               # an undefined name somewhere
        k = rng.randrange(len(env))
        env[k][1] = [{'n': [env[k][1][0], {'r': 'q'}]}] if rng.random() < 0.5 else [{'r': 'q'}]
    ts = [rand_scalar(rng, names) for _ in range(rng.randrange(1, 4))]
    if not any('r' in json.dumps(t) for t in ts):
        ts.append({'r': names[0]})
    rng.shuffle(env)
    return env, ts


def render_tok(t):
    if 'l' in t:
        return t['l']
    if 'r' in t:
        return '@' + t['r']
    a, b = t['n']
    return '(%s + %s)' % (render_tok(a), render_tok(b))


def render_vars(env, ts):
    return ''.join('@%s: %s;\n' % (n, ' '.join(render_tok(t) for t in v)) for n, v in env) + '.x{y: %s}\n' % ' '.join(render_tok(t) for t in ts)


def expect_vars(env, ts):
    """generator-side semantics: ('cycle',) | ('unknown', name-set) | ('ok', number of literals in the expansion)"""
    d = dict((n, v) for n, v in env)
    state = {}
    unknown = set()
    cyc = [False]

    def cnt_tok(t):
        if 'l' in t:
            return 1
        if 'n' in t:
            return sum(cnt_tok(x) for x in t['n'])
        nm = t['r']
        if nm not in d:
            unknown.add(nm)
            return 0
        if state.get(nm) == 'open':
            cyc[0] = True
            return 0
        if isinstance(state.get(nm), int):
            return state[nm]
        state[nm] = 'open'
        c = sum(cnt_tok(x) for x in d[nm])
        state[nm] = c
        return c
    total = sum(cnt_tok(t) for t in ts)
    if cyc[0] and not unknown:
        return ('cycle',)
    if cyc[0] or unknown:
        return ('error',)               # which of the two errors comes first is the evaluation order's business
    return ('ok', total)


def classify(r):
    """real result -> ('ok', css) | ('recursive',) | ('unknown', name) | ('nameerror',) | ('toodeep',) | ('other', ...)"""
    if r[0] == 'ok':
        return ('ok', r[1])
    if r[0] == 'err' and 'CompilationError' in r[3]:
        m = r[2]
        if 'Recursive variable definition' in m:
            return ('recursive',)
        if 'Unknown variable' in m:
            return ('unknown', m.split('Unknown variable')[1].split()[0].strip('@'))
        if 'NameError' in m:
            return ('nameerror',)
        if 'too deep' in m:
            return ('toodeep',)
        return ('comperr', m[:200])
    return ('other',) + tuple(r[1:3])


def value_sum(css):
    """sum of the numbers in the single declaration of .x"""
    body = css.split('{', 1)[1].rsplit('}', 1)[0]
    val = body.split(':', 1)[1].rstrip(';')
    return sum(int(x) for x in val.split())


# --------------------------------------------------------------------------------------------- imports

def rand_import_case(rng):
    n = rng.randrange(1, 7)
    names = ['f%d' % i for i in range(n)]
    kind = rng.random()
    files = []
    rid = [0]

    def rule():
        rid[0] += 1
        return {'rule': 'r%d' % rid[0]}
    for i, nm in enumerate(names):
        units = []
        nimp = rng.choice([0, 1, 1, 1, 2]) if kind < 0.5 else rng.choice([0, 1, 1])
        targets = names[i + 1:] if kind < 0.5 else names
        for _ in range(nimp):
            if rng.random() < 0.08:
                units.append({'imp': 'nofile'})
            elif targets:
                units.append({'imp': rng.choice(targets)})
        for _ in range(rng.randrange(0, 3)):
            units.insert(rng.randrange(len(units) + 1), rule())
        files.append([nm, units])
    return files, 'f0'


def chain_case(n, close=False):
    """f0 imports f1 imports ... f(n-1); with close the last one imports f0 again"""
    files = []
    for i in range(n):
        units = [{'imp': 'f%d' % (i + 1)}] if i < n - 1 else ([{'imp': 'f0'}] if close else [])
        files.append(['f%d' % i, units + [{'rule': 'r%d' % i}]])
    return files, 'f0'


def count_loads(files, root, cap=400):
    d = dict(files)
    cnt = [0]

    def go(name, lvl):
        cnt[0] += 1
        if cnt[0] > cap:
            return
        for u in d.get(name, []):
            if 'imp' in u:
                if lvl > 8:
                    return
                if u['imp'] in d:
                    go(u['imp'], lvl + 1)
    go(root, 0)
    return cnt[0]


def expect_imports(files, root):
    """('cycle',) when a cycle is reachable from root through existing files, else ('acyclic', depth, inline rule list, missing list)"""
    d = dict(files)
    state = {}
    cyc = [False]

    def go(name):
        if state.get(name) == 'open':
            cyc[0] = True
            return 0, [], []
        state[name] = 'open'
        depth, out, missing = 0, [], []
        for u in d[name]:
            if 'rule' in u:
                out.append(u['rule'])
            elif u['imp'] not in d:
                missing.append(u['imp'])
            else:
                dd, oo, mm = go(u['imp'])
                depth = max(depth, dd + 1)
                out += oo
                missing += mm
        state[name] = 'done'
        return depth, out, missing
    depth, out, missing = go(root)
    if cyc[0]:
        return ('cycle',)
    return ('acyclic', depth, out, missing)


def run_import_case(job):
    files, root, ext_seed = job
    rng = random.Random(ext_seed)
    C.use_repo()
    import contextlib
    import signal
    from lesscpy.lessc import parser, formatter
    import lesscpy
    d = tempfile.mkdtemp(prefix='c20i-')
    old = signal.signal(signal.SIGALRM, C._alarm)
    try:
        for nm, units in files:
            with open(os.path.join(d, nm + '.less'), 'w') as f:
                for u in units:
                    if 'rule' in u:
                        f.write('.%s{top:1px}\n' % u['rule'])
                    else:
                        f.write('@import "%s%s";\n' % (u['imp'], rng.choice(['', '.less'])))
        rootp = os.path.join(d, root + '.less')
        t0 = time.time()
        signal.setitimer(signal.ITIMER_REAL, 120)
        err = io.StringIO()
        try:
            with contextlib.redirect_stderr(err):
                p = parser.LessParser()
                p.parse(filename=rootp)

                class Opt:
                    minify, xminify, tabs, spaces = True, False, False, 2
                css = formatter.Formatter(Opt()).format(p)
            loose = ('ok', css, err.getvalue())
        except C.HarnessTimeout:
            loose = ('timeout', '', '')
        except BaseException as e:  # noqa
            loose = ('exc', type(e).__name__ + ': ' + str(e)[:200], err.getvalue())
        finally:
            signal.setitimer(signal.ITIMER_REAL, 0)
        t1 = time.time()
        signal.setitimer(signal.ITIMER_REAL, 120)
        try:
            with open(rootp) as fh:
                strict = ('ok', lesscpy.compile(fh, minify=True))
        except C.HarnessTimeout:
            strict = ('timeout', 120, '', ['HarnessTimeout'])
        except BaseException as e:  # noqa
            strict = ('err', type(e).__name__, str(e)[:600], [c.__name__ for c in type(e).__mro__])
        finally:
            signal.setitimer(signal.ITIMER_REAL, 0)
        return loose, strict, t1 - t0, time.time() - t1
    finally:
        signal.signal(signal.SIGALRM, old)
        shutil.rmtree(d, ignore_errors=True)


def rules_of(css):
    return [seg.split('{')[0].lstrip('.') for seg in css.split('\n') if seg.strip()]


# --------------------------------------------------------------------------------------------- mixins

def mixin_families(tier):
    """(label, LESS source, expectation, model sheet or None); expectation: 'error' | ('decls', n)"""
    fam = []

    def call(name, args=None):
        return {'call': [name, args or []]}

    def mdef(name, body, params=None, guard=None):
        return {'mdef': {'name': name, 'params': params or [], 'guard': guard or [], 'b': body}}
    # self recursion, direct
    fam.append(('self', '.m(){.m();}\n.a{.m();}', 'error', [mdef('.m', [call('.m')]), {'r': ['.a'], 'b': [call('.m')]}]))
    fam.append(('self-decl-first', '.m(){top:1px; .m();}\n.a{.m();}', 'error',
                [mdef('.m', [{'d': ['top', [['l', '1px']]]}, call('.m')]), {'r': ['.a'], 'b': [call('.m')]}]))
    # through a nested rule (depth counter kept across Block.parse since fix 2444980)
    fam.append(('self-nested-rule', '.m(){.x{.m();}}\n.a{.m();}', 'error',
                [mdef('.m', [{'r': ['.x'], 'b': [call('.m')]}]), {'r': ['.a'], 'b': [call('.m')]}]))
    fam.append(('self-nested-2', '.m(){.x{.y{.m();}}}\n.a{.m();}', 'error',
                [mdef('.m', [{'r': ['.x'], 'b': [{'r': ['.y'], 'b': [call('.m')]}]}]), {'r': ['.a'], 'b': [call('.m')]}]))
    fam.append(('self-media', '.m(){@media print{.m();}}\n.a{.m();}', 'error', None))
    fam.append(('self-amp', '.m(){&:hover{.m();}}\n.a{.m();}', 'error', None))
    fam.append(('block-as-mixin', '.a{.b{.a;}}', 'error', None))
    fam.append(('block-as-mixin-2', '.a{top:1px; .b{.a;}}', 'error', None))
    fam.append(('block-mutual', '.a{.b;}\n.b{.a;}', 'error', None))
    fam.append(('arg-grows', '.m(@n){w:@n; .m(@n + 1);}\n.a{.m(1);}', 'error', None))
    # cycles of every length
    ks = list(range(1, 13)) + [30, 64, 65, 66, 100] if tier == 'quick' else list(range(1, 101))
    for k in ks:
        src = ''.join('.m%d(){.m%d();}\n' % (i, (i + 1) % k) for i in range(k)) + '.a{.m0();}'
        sheet = [mdef('.m%d' % i, [call('.m%d' % ((i + 1) % k))]) for i in range(k)] + [{'r': ['.a'], 'b': [call('.m0')]}]
        fam.append(('cycle-%d' % k, src, 'error', sheet))
    # guarded count-down on both sides of the limit
    ns = [1, 2, 3, 10, 32, 60, 63, 64, 65, 66, 70] if tier == 'quick' else list(range(1, 72)) + [100, 200]
    for n in ns:
        src = '.loop(@i) when (@i > 0){w:@i; .loop(@i - 1);}\n.a{.loop(%d);}' % n
        sheet = [mdef('.loop', [{'d': ['w', [['r', 'i']]]}, call('.loop', [{'arith': ['i', -1]}])], [['i', None]], [[[False, 'i', '>', '0']]]),
                 {'r': ['.a'], 'b': [call('.loop', [{'val': [['l', str(n)]]}])]}]
        fam.append(('countdown-%d' % n, src, ('decls', n) if n <= 64 else 'error', sheet))
        src2 = '.loop(@i) when (@i > 0){.x{w:@i; .loop(@i - 1);}}\n.a{.loop(%d);}' % n
        fam.append(('countdown-nested-%d' % n, src2, ('decls', n) if n <= 64 else 'error', None))
    # the same at the top level of the sheet (no enclosing rule), and with helper calls as siblings of the recursive call
    fam.append(('self-toplevel', '.m(){.x{top:1px} .m();}\n.m();', 'error', None))
    fam.append(('mutual-toplevel', '.p(){.x{top:1px} .q();}\n.q(){.y{top:2px} .p();}\n.p();', 'error', None))
    fam.append(('arg-grows-toplevel', '.m(@n){.x{w:@n} .m(@n + 1);}\n.m(1);', 'error', None))
    helpers = '.h1(){color:red}\n.h2(){margin:0}\n.h3(){padding:0}\n'
    for n in ([5, 20, 30, 64, 65] if tier == 'quick' else [1, 5, 10, 20, 21, 22, 30, 40, 63, 64, 65, 66]):
        for nh in (1, 3):
            calls = ''.join('.h%d(); ' % (i + 1) for i in range(nh))
            fam.append(('countdown-helpers-%d-%d' % (nh, n), helpers + '.loop(@i) when (@i > 0){%sw:@i; .loop(@i - 1);}\n.a{.loop(%d);}' % (calls, n),
                        ('decls', n) if n <= 64 else 'error', None))
            fam.append(('countdown-helpers-after-%d-%d' % (nh, n), helpers + '.loop(@i) when (@i > 0){w:@i; .loop(@i - 1); %s}\n.a{.loop(%d);}' % (calls, n),
                        ('decls', n) if n <= 64 else 'error', None))
        fam.append(('countdown-toplevel-%d' % n, '.loop(@i) when (@i > 0){.x-@{i}{w:@i} .loop(@i - 1);}\n.loop(%d);' % n,
                    ('decls', n) if n <= 64 else 'error', None))
    # fan-out: time must stay proportional to the expansion
    for n in ([1, 4, 8, 10] if tier == 'quick' else range(1, 13)):
        src = '.f(@n) when (@n > 0){w:@n; .f(@n - 1); .f(@n - 1);}\n.a{.f(%d);}' % n
        fam.append(('fanout-%d' % n, src, ('decls', 2 ** n - 1), None))
    return fam


MUST_ERROR = {'guard', 'guard-self-expr', 'guard-arg', 'guard-3cycle', 'mixin-arg', 'mixin-arg-expr', 'mixin-default', 'mixin-default-self', 'call-arg', 'string',
              'url', 'escape', 'selector', 'selector-string', 'media', 'media-value', 'expr-self', 'expr-mutual', 'paren-self', 'nested-block-value',
              'keyframes-value', 'mixin-body-value'}
OTHER_SITES = [          # variable cycles met at other evaluation sites: must be a result or a CompilationError; those in MUST_ERROR use the cycle
    ('guard', '@a: @b;\n@b: @a;\n.m() when (@a > 0){w:1}\n.a{.m();}'),
    ('mixin-arg', '.m(@p){w:@p}\n@a: @b;\n@b: @a;\n.x{.m(@a);}'),
    ('mixin-default', '.m(@x: @y, @y: @x){w:@x}\n.a{.m();}'),
    ('mixin-default-self', '.m(@x: @x){w:@x}\n.a{.m();}'),
    ('call-arg', '@a: @b;\n@b: @a;\n.x{w:darken(@a, 10%)}'),
    ('string', '@a: "@{b}";\n@b: "@{a}";\n.x{y:@a}'),
    ('url', '@a: "@{a}";\n.x{w:url("@{a}")}'),
    ('escape', '@a: ~"@{a}";\n.x{w:@a}'),
    ('selector', '@a: @b;\n@b: @a;\n.x-@{a}{w:1}'),
    ('selector-string', '@a: "@{b}";\n@b: "@{a}";\n.x-@{a}{w:1}'),
    ('property-name', '@a: @b;\n@b: @a;\n.x{@{a}:1}'),
    ('media', '@a: @b;\n@b: @a;\n@media @a{.x{w:1}}'),
    ('guard-self-expr', '@x: @x + 1;\n.m() when (@x > 0){w:1}\n.b{.m();}'),
    ('guard-arg', '@x: @y;\n@y: @x;\n.m(@a) when (@a > 0){w:1}\n.b{.m(@x);}'),
    ('guard-3cycle', '@p: @q;\n@q: @r;\n@r: @p;\n.m() when (@q > 0){w:1}\n.m() when (default()){w:2}\n.b{.m();}'),
    ('mixin-arg-expr', '.m(@p){w:@p}\n@a: @b;\n@b: @a;\n.x{.m(@a + 1);}'),
    ('media-value', '@a: @b;\n@b: @a;\n@media (min-width: @a){.x{w:1}}'),
    ('nested-block-value', '@a: @b;\n@b: @a;\n.o{.i{.j{w:@a}}}'),
    ('keyframes-value', '@a: @b;\n@b: @a;\n@keyframes k{from{top:@a}}'),
    ('mixin-body-value', '@a: @b;\n@b: @a;\n.m(){w:@a}\n.x{.m;}'),
    ('unused', '@a: @b;\n@b: @a;\n.x{y:1px}'),
    ('indirect', '@a: "a";\n.x{w:@@a}'),
    ('expr-self', '@a: @a + 1;\n.x{w:@a}'),
    ('expr-mutual', '@a: @b + 1;\n@b: @a * 2;\n.x{y:@a}'),
    ('paren-self', '@a: (@a);\n.x{w:@a}'),
    ('deep-static-nesting', '.a{' * 150 + 'w:1' + '}' * 150),
    ('deep-paren', '.a{w:' + '(' * 100 + '1' + ')' * 100 + '}'),
    ('many-decls', '.a{' + 'w:1;' * 5000 + '}'),
]


def rand_mixin_prog(rng):
    """a random recursive mixin program and what it must give"""
    nw = rng.randrange(1, 3)
    nh = rng.randrange(0, 5)
    wrap = rng.choice(['', '', '.x{%s}', '@media print{%s}', '&-s{%s}'])
    guarded = rng.random() < 0.6
    top = rng.random() < 0.3
    n = rng.choice([1, 2, 3, 5, 8, 13, 21, 34, 55, 64, 65, 80]) if guarded else rng.randrange(0, 4)
    items = ['.h%d();' % (rng.randrange(3) + 1) for _ in range(nh)]
    decl = 'w:@i;' * nw
    if top:
        decl = '.d-@{i}{%s}' % decl
    items.append(decl)
    rec = '.loop(@i - 1);' if guarded else rng.choice(['.loop(@i + 1);', '.loop(@i);', '.loop(7);'])
    items.append(wrap % rec if wrap and not (top and wrap.startswith('&')) else rec)
    rng.shuffle(items)
    src = '.h1(){color:red}\n.h2(){margin:0}\n.h3(){padding:0}\n.loop(@i)%s{%s}\n' % (' when (@i > 0)' if guarded else '', ' '.join(items))
    src += ('.loop(%d);' % n) if top else ('.a{.loop(%d);}' % n)
    exp = ('decls', n * nw) if guarded and n <= 64 else 'error'
    return ('random-mixin', src, exp, None)


def timed_compile(job):
    src = job
    t0 = time.time()
    r = C.real_compile(src, minify=True, timeout=120)
    return r, time.time() - t0


# --------------------------------------------------------------------------------------------- main

def gather_theorems(build):
    return sorted(t for t in build.axioms if t.startswith('Lessm.'))


def run(tier):
    chk = C.Check(PROP, tier, 'proof')
    rng = random.Random(C.seed() * 7919 + 20)
    build = C.lean_build(PROP)
    b2 = C.lean_build('C20Mixin', theorems_module='Lessm.Props.C20Mixin', extract=False)
    build.ok = build.ok and b2.ok
    build.log += '\n' + b2.log
    build.axioms.update(b2.axioms)
    build.failed_modules += b2.failed_modules
    build.audit_problems += b2.audit_problems
    thms = gather_theorems(build)
    required = ['Lessm.Term.C20_var_cycle', 'Lessm.Term.C20_var_mono', 'Lessm.Term.C20_import_cycle', 'Lessm.Term.C20_import_shallow',
                'Lessm.Mixin.C20_mixin_gas_mono', 'Lessm.Mixin.C20_mixin_gas_enough']
    missing = chk.set_proof(build, sorted(set(thms) | set(required)),
                            'cd lean && lake build Lessm.Props.C20 Lessm.Props.C20Mixin Lessm.Audit.C20 Lessm.Audit.C20Mixin && '
                            'lake env lean Lessm/Audit/C20.lean && lake env lean Lessm/Audit/C20Mixin.lean')
    chk.cov['trusted_base'] = C.TRUSTED_BASE + [
        'C20: the models keep exactly the counters of the code (nesting 128, rounds 2*vars+4, import level 8, mixin depth 64); what a '
        'single step costs in CPython, and that PLY parsing itself is linear in the text, is measured (wall-clock oracle), not proved']
    problems = 0
    disagreements = []
    slow = []

    def too_slow(secs, out_len):
        return secs > TIME_BASE + TIME_PER_KB * out_len / 1024.0

    # ---- (a) variables
    nv = 500 if tier == 'quick' else 12000
    vcases = [rand_var_case(rng) for _ in range(nv)]
    for n in (120, 126, 127, 128, 129, 135):            # nesting chains: v0 = (v1 + 1), ..., n nodes deep
        env = [['v%d' % i, [{'n': [{'r': 'v%d' % (i + 1)}, {'l': '1'}]}]] for i in range(n)] + [['v%d' % n, [{'l': '1'}]]]
        vcases.append((env, [{'r': 'v0'}]))
    for n in (10, 64, 65, 200, 400):                    # plain reference chains: the round limit must never bite
        env = [['v%d' % i, [{'r': 'v%d' % (i + 1)}]] for i in range(n)] + [['v%d' % n, [{'l': '1'}]]]
        vcases.append((env, [{'r': 'v0'}, {'r': 'v%d' % (n // 2)}]))
    for k in (1, 2, 3, 7, 40):                          # cycles of length k, entered after an acyclic prefix
        env = [['p', [{'r': 'c0'}]]] + [['c%d' % i, [{'r': 'c%d' % ((i + 1) % k)}]] for i in range(k)]
        vcases.append((env, [{'l': '1'}, {'r': 'p'}]))
        env2 = [['p', [{'n': [{'r': 'c0'}, {'l': '1'}]}]]] + [['c%d' % i, [{'n': [{'l': '1'}, {'r': 'c%d' % ((i + 1) % k)}]}]] for i in range(k)]
        vcases.append((env2, [{'r': 'p'}]))
    vsrc = [render_vars(e, t) for e, t in vcases]
    vres = C.pool().map(timed_compile, vsrc, chunksize=8)
    try:
        vmodel = C.Driver().run([('c20.vars', json.dumps({'env': e, 'ts': t})) for e, t in vcases])
    except Exception as e:
        vmodel = [None] * len(vcases)
        build.ok = False
        build.log += '\nDRIVER: %r' % e
    dist = {'var_ok': 0, 'var_cycle': 0, 'var_unknown': 0}
    for (env, ts), src, (r, secs), m in zip(vcases, vsrc, vres, vmodel):
        exp = expect_vars(env, ts)
        cl = classify(r)
        chk.count(src, nontrivial=len(env) > 1)
        bad = None
        if cl[0] == 'other' or r[0] == 'timeout':
            bad = 'ended as %r' % (cl,)
        elif too_slow(secs, len(r[1]) if r[0] == 'ok' else 0):
            bad = 'took %.1f s' % secs
        elif exp[0] == 'cycle' and cl[0] != 'recursive':
            bad = 'variables defined in terms of each other, expected the recursive-definition error, got %r' % (cl,)
        elif exp[0] == 'error' and cl[0] not in ('recursive', 'unknown'):
            bad = 'expected a compilation error, got %r' % (cl,)
        elif exp[0] == 'ok':
            depth_ok = src.count('(') < 100          # the generator's expectation ignores the nesting limit
            if cl[0] == 'ok':
                if value_sum(cl[1]) != exp[1]:
                    bad = 'expanded to %r, expected %d literals' % (cl[1], exp[1])
            elif depth_ok or cl[0] != 'recursive':
                bad = 'acyclic definitions rejected: %r' % (cl,)
        dist['var_ok'] += cl[0] == 'ok'
        dist['var_cycle'] += cl[0] == 'recursive'
        dist['var_unknown'] += cl[0] == 'unknown'
        if bad:
            chk.violation({'kind': 'vars', 'source': src, 'problem': bad, 'seconds': round(secs, 2)})
            problems += 1
            if problems > 5:
                break
            continue
        if m is not None:
            try:
                mj = json.loads(m)
            except Exception:
                mj = {'bad': m}
            if 'ok' in mj:
                agree = cl[0] == 'ok' and value_sum(cl[1]) == len(mj['ok'])
            elif mj.get('err') == 'recursive':
                agree = cl[0] == 'recursive'
            elif str(mj.get('err', '')).startswith('unknown'):
                agree = cl[0] == 'unknown' and cl[1] == mj['err'].split()[1]
            else:
                agree = False
            if not agree:
                disagreements.append({'part': 'vars', 'source': src, 'model': mj, 'real': cl})
    # ---- (b) imports
    ni = 60 if tier == 'quick' else 700
    icases = []
    while len(icases) < ni:
        f, root = rand_import_case(rng)
        if count_loads(f, root) <= (40 if tier == 'quick' else 120):
            icases.append((f, root))
    for n in (1, 2, 9, 10, 11, 13):
        icases.append(chain_case(n))
    for n in (1, 2, 3, 5):
        icases.append(chain_case(n, close=True))
    ires = C.pool().map(run_import_case, [(f, r, rng.randrange(1 << 30)) for f, r in icases], chunksize=1)
    try:
        imodel = C.Driver().run([('c20.imports', json.dumps({'files': f, 'root': r})) for f, r in icases])
    except Exception as e:
        imodel = [None] * len(icases)
        build.ok = False
        build.log += '\nDRIVER: %r' % e
    dist.update({'imp_ok': 0, 'imp_toodeep': 0, 'imp_missing': 0})
    for (files, root), (loose, strict, s1, s2), m in zip(icases, ires, imodel):
        exp = expect_imports(files, root)
        chk.count(files, nontrivial=len(files) > 1)
        cl = classify(strict)
        bad = None
        if loose[0] != 'ok':
            bad = 'parser ended as %r' % (loose[:2],)
        elif cl[0] == 'other' or strict[0] == 'timeout':
            bad = 'library call ended as %r' % (cl,)
        elif too_slow(max(s1, s2), len(loose[1]) + 2048 * count_loads(files, root)):
            bad = 'took %.1f s' % max(s1, s2)
        elif exp[0] == 'cycle' and not (cl[0] == 'toodeep' or (cl[0] == 'comperr' and 'too deep' in strict[2])):
            if 'too deep' not in strict[2]:
                bad = 'import cycle not reported: %r' % (cl,)
        elif exp[0] == 'acyclic':
            _k, depth, out, absent = exp
            if depth <= 9:
                if rules_of(loose[1]) != out:
                    bad = 'acyclic imports of depth %d: output %r, textual inclusion gives %r' % (depth, rules_of(loose[1]), out)
                elif absent and strict[0] == 'ok':
                    bad = 'missing import %r not reported' % (absent,)
                elif not absent and strict[0] != 'ok':
                    bad = 'acyclic imports of depth %d rejected: %r' % (depth, cl)
            elif strict[0] == 'ok':
                bad = 'import chain of depth %d accepted silently with output %r' % (depth, rules_of(loose[1]))
        dist['imp_ok'] += strict[0] == 'ok'
        dist['imp_toodeep'] += 'too deep' in (strict[2] if strict[0] == 'err' else '')
        dist['imp_missing'] += 'not found' in (strict[2] if strict[0] == 'err' else '')
        if bad:
            chk.violation({'kind': 'imports', 'files': files, 'root': root, 'problem': bad, 'stderr': loose[2][-400:] if len(loose) > 2 else ''})
            problems += 1
            if problems > 5:
                break
            continue
        if m is not None:
            try:
                mj = json.loads(m)
            except Exception:
                mj = {'bad': m}
            real_errs = []
            for line in loose[2].split('\n'):
                if 'too deep' in line:
                    real_errs.append('toodeep')
                elif 'file not found' in line:
                    real_errs.append('missing ' + os.path.basename(line.split("'")[1])[:-5])
            if mj.get('out') != rules_of(loose[1]) or mj.get('errs') != real_errs:
                disagreements.append({'part': 'imports', 'files': files, 'model': mj, 'real': [rules_of(loose[1]), real_errs]})
    # ---- (c) mixins
    fam = mixin_families(tier)
    for _ in range(150 if tier == 'quick' else 3000):
        fam.append(rand_mixin_prog(rng))
    mres = C.pool().map(timed_compile, [f[1] for f in fam], chunksize=2)
    with_model = [(i, f[3]) for i, f in enumerate(fam) if f[3] is not None]
    try:
        mmodel = dict(zip((i for i, _ in with_model), C.Driver().run([('c05.run', json.dumps(sh)) for _i, sh in with_model])))
    except Exception as e:
        mmodel = {}
        build.ok = False
        build.log += '\nDRIVER: %r' % e
    dist.update({'mixin_error': 0, 'mixin_ok': 0})
    for i, ((label, src, exp, _sheet), (r, secs)) in enumerate(zip(fam, mres)):
        chk.count(src)
        cl = classify(r)
        ndecl = r[1].count('w:') if r[0] == 'ok' else None
        bad = None
        if cl[0] == 'other' or r[0] == 'timeout':
            bad = 'ended as %r' % (cl,)
        elif too_slow(secs, len(r[1]) if r[0] == 'ok' else 0):
            bad = 'took %.1f s for %d bytes of output' % (secs, len(r[1]) if r[0] == 'ok' else 0)
        elif exp == 'error' and cl[0] == 'ok':
            bad = 'runaway recursion not reported: output %r' % r[1][:200]
        elif exp != 'error' and (cl[0] != 'ok' or ndecl != exp[1]):
            bad = 'guarded recursion inside the limit did not expand completely: %r (%s declarations, expected %d)' % (cl[:1], ndecl, exp[1])
        dist['mixin_error'] += cl[0] != 'ok'
        dist['mixin_ok'] += cl[0] == 'ok'
        if bad:
            chk.violation({'kind': 'mixins', 'label': label, 'source': src, 'problem': bad, 'seconds': round(secs, 2)})
            problems += 1
            if problems > 5:
                break
            continue
        if i in mmodel:
            try:
                mj = json.loads(mmodel[i])
            except Exception:
                mj = {'bad': mmodel[i]}
            if isinstance(mj, dict):
                agree = cl[0] == 'nameerror' and str(mj.get('err', '')).startswith('nameerror')
            else:
                agree = cl[0] == 'ok' and sum(len(rule[1]) for rule in mj) == ndecl
            if not agree:
                disagreements.append({'part': 'mixins', 'label': label, 'source': src, 'model': mj if isinstance(mj, dict) else '%d rules' % len(mj), 'real': cl[:1]})
        slow.append((round(secs, 2), label))
    # ---- (d) other evaluation sites
    ores = C.pool().map(timed_compile, [s for _l, s in OTHER_SITES], chunksize=1)
    for (label, src), (r, secs) in zip(OTHER_SITES, ores):
        chk.count(src)
        cl = classify(r)
        if cl[0] == 'other' or r[0] == 'timeout' or too_slow(secs, len(r[1]) if r[0] == 'ok' else 0):
            chk.violation({'kind': 'site', 'label': label, 'source': src[:2000], 'problem': 'ended as %r after %.1f s' % (cl, secs)})
        elif label in MUST_ERROR and cl[0] == 'ok':
            chk.violation({'kind': 'site', 'label': label, 'source': src[:2000],
                           'problem': 'variables defined in terms of each other are evaluated here, but the sheet compiled without an error: %r' % cl[1][:200]})
    chk.cov['rule'] = ('%d variable definition sets (random graphs of 1-8 variables with nested expressions: acyclic, arbitrary, with undefined names; '
                       'nesting chains 120-135; reference chains 10-400; cycles of length 1-40 behind a prefix), %d import graphs on disk (random 1-6 '
                       'files, chains 1-13, closed chains), %d mixin recursion programs (self, nested, cycles of length k, count-downs n, fan-out), '
                       '%d other evaluation sites; distinct by source; non-trivial = more than one definition / file'
                       % (len(vcases), len(icases), len(fam), len(OTHER_SITES)))
    chk.cov['distribution'] = dist
    chk.cov['slowest_mixin_runs'] = sorted(slow, reverse=True)[:5]
    chk.cov['time_bound'] = 'every compilation: wall clock <= %.0f s + %.1f s per KB of output (imports: + per file load)' % (TIME_BASE, TIME_PER_KB)
    chk.cov['disagreements_checked'] = len(vcases) + len(icases) + len(with_model)
    chk.cov['disagreements_found'] = len(disagreements)
    chk.cov['exhaustive'] = False
    chk.sample({'vars': vsrc[0], 'real': list(classify(vres[0][0])), 'model': vmodel[0]})
    chk.sample({'imports': icases[0][0], 'real': [rules_of(ires[0][0][1]) if ires[0][0][0] == 'ok' else ires[0][0][:2], ires[0][1][:3]], 'model': imodel[0]})
    chk.sample({'mixin': fam[2][1], 'real': list(classify(mres[2][0]))})
    if os.environ.get('VERIF_DEV_SKIP_LEAN') == '1':
        print('DEV disagreements', len(disagreements), json.dumps(disagreements[:4])[:3000])
    C.tie_verdict(chk, build, missing, disagreements, 'Lessm.Term.eval / compileFile, Lessm.Mixin.compile vs lesscpy',
                  'all generated programs were run against the real code under the wall-clock bound: every one ended as a result or a CompilationError')
    return chk.finish()


def replay(path):
    d = json.load(open(path))
    if d.get('kind') in ('vars', 'mixins', 'site'):
        r, secs = timed_compile(d['source'])
        print('source :', d['source'][:600])
        print('result :', classify(r), '%.1f s' % secs)
        print('problem recorded:', d.get('problem'))
        cl = classify(r)
        bad = cl[0] == 'other' or r[0] == 'timeout'
        if 'compiled without an error' in d.get('problem', ''):
            bad = bad or cl[0] == 'ok'
        if d['kind'] == 'mixins' and 'not reported' in d.get('problem', ''):
            bad = bad or cl[0] == 'ok'
        if d['kind'] == 'vars' and 'expected the recursive' in d.get('problem', ''):
            bad = bad or cl[0] != 'recursive'
        if 'did not expand' in d.get('problem', '') or 'rejected' in d.get('problem', ''):
            bad = bad or cl[0] != 'ok'
        if bad:
            print('VIOLATION property=%s replay=%s' % (PROP, path))
            return 1
        print('replay: property holds on this input now')
        return 0
    if d.get('kind') == 'imports':
        loose, strict, s1, s2 = run_import_case((d['files'], d['root'], 1))
        print('files  :', json.dumps(d['files']))
        print('parser :', loose[:2], '| library:', strict[:3])
        exp = expect_imports(d['files'], d['root'])
        cl = classify(strict)
        bad = loose[0] != 'ok' or cl[0] == 'other' or (exp[0] == 'cycle' and strict[0] == 'ok')
        if exp[0] == 'acyclic' and exp[1] <= 9:
            bad = bad or rules_of(loose[1]) != exp[2] or (not exp[3] and strict[0] != 'ok')
        if bad:
            print('VIOLATION property=%s replay=%s' % (PROP, path))
            return 1
        print('replay: property holds on this input now')
        return 0
    print('replay: nothing executable in', path)
    return 2
