"""
C15  Malformed input is reported as an error and never compiled silently.

Proof side : lean/Lessm/Props/C15.lean — on the grammar REGENERATED from parser.py on every run: every sentence is
             balanced w.r.t. braces / parentheses / interpolated-string / escape delimiters (certificates re-checked by
             `decide +kernel`), no prefix closes more than it opened; the validating LR driver is sound, hence never
             accepts an unbalanced token stream, whatever the tables.
Tie        : the LR model run on the REAL tables (regenerated, driver op c15.rec) against the real parser: for every
             generated program and every single corruption of it, accept/reject must agree, and for syntax errors the
             token type and the 1-based line of the first diagnostic must be those of the model's error position.
Oracle     : every corruption from the listed classes (delete '}', delete '{', insert '}', delete ':', drop a closing
             quote, insert a character of no token, rename a variable use) must raise CompilationError / SyntaxError
             through lesscpy.compile and print a diagnostic (exit code / stderr) through `python -m lesscpy`.
"""
import io
import json
import os
import random
import re
import subprocess
import tempfile

import common as C
import canon

PROP = 'C15'


def filtered_tokens(src):
    """(type, value, lineno) of the tokens LessLexer.token() returns, or ('lexerror', message)"""
    C.use_repo()
    from lesscpy.lessc import lexer as L
    import io as _io
    lx = L.LessLexer()
    lx.input(_io.StringIO(src))
    out = []
    try:
        while True:
            t = lx.token()
            if not t:
                break
            out.append((t.type, str(t.value), t.lineno, t.lexpos))
    except SyntaxError as e:
        return ('lexerror', str(e), out)
    return ('ok', out)


def _tok_job(src):
    try:
        return filtered_tokens(src)
    except BaseException as e:
        return ('crash', type(e).__name__ + ': ' + str(e)[:200])


def code_positions(src, chars):
    """positions of the given characters outside strings and comments"""
    out = []
    i, n = 0, len(src)
    while i < n:
        c = src[i]
        if c in '"\'':
            i = canon._scan_string(src, i)
            continue
        if src.startswith('/*', i):
            j = src.find('*/', i + 2)
            i = n if j < 0 else j + 2
            continue
        if src.startswith('//', i):
            j = src.find('\n', i)
            i = n if j < 0 else j
            continue
        if src.startswith('@{', i):
            j = src.find('}', i)
            i = n if j < 0 else j + 1
            continue
        if c in chars:
            out.append(i)
        i += 1
    return out


def corruptions(src, rng, per_class):
    """single corruptions of a well-formed program, labelled by class"""
    out = []
    pos_close = code_positions(src, '}')
    pos_open = code_positions(src, '{')
    pos_colon = [p for p in code_positions(src, ':') if re.match(r':\s*[^;{}]+;', src[p:]) and not re.match(r':(hover|focus|first-child|:)', src[p:])]
    for p in rng.sample(pos_close, min(per_class, len(pos_close))):
        out.append(('delete-close-brace', src[:p] + src[p + 1:]))
    for p in rng.sample(pos_open, min(per_class, len(pos_open))):
        out.append(('delete-open-brace', src[:p] + src[p + 1:]))
    for p in rng.sample(pos_close + pos_open, min(per_class, len(pos_close + pos_open))):
        out.append(('insert-close-brace', src[:p] + '}' + src[p:]))
    for p in rng.sample(pos_colon, min(per_class, len(pos_colon))):
        out.append(('delete-colon', src[:p] + ' ' + src[p + 1:]))
    # drop a closing quote
    strs = []
    i = 0
    while i < len(src):
        if src[i] in '"\'':
            j = canon._scan_string(src, i)
            strs.append((i, j))
            i = j
        else:
            i += 1
    # (quotes inside an attribute selector `[x="1"]` are part of one selector token, not string literals)
    strs = [(a, b) for a, b in strs if src.rfind('[', 0, a) <= src.rfind(']', 0, a)]
    for (a, b) in rng.sample(strs, min(per_class, len(strs))):
        out.append(('drop-closing-quote', src[:b - 1] + src[b:]))
    # a character that belongs to no token
    gaps = code_positions(src, ';{}')
    for p in rng.sample(gaps, min(per_class, len(gaps))):
        out.append(('illegal-character', src[:p + 1] + ' ' + rng.choice('$`\\^|?') + ' ' + src[p + 1:]))
    # truncate at end (block left open at end of input)
    for p in rng.sample(pos_close, min(per_class, len(pos_close))):
        out.append(('truncate', src[:p]))
    # reference to an undefined variable
    # (a USE: a declaration inside an ordinary top-level rule; definitions and mixin bodies are evaluated lazily)
    uses = []
    depth = 0
    for p in code_positions(src, '{}'):
        if src[p] == '{':
            if depth == 0:
                head = src[src.rfind('\n', 0, p) + 1:p]
                prev_end = max(src.rfind('}', 0, p), src.rfind(';', 0, p))
                head = src[prev_end + 1:p]
                if '(' not in head and '@' not in head:
                    uses.append(p)
            depth += 1
        else:
            depth -= 1
    for p in rng.sample(uses, min(per_class, len(uses))):
        out.append(('undefined-variable', src[:p + 1] + ' top: 1px @zzundefined; ' + src[p + 1:]))
    if uses and re.search(r'^\.m0\(@\w+', src, re.M):
        p = rng.choice(uses)
        narg = len(re.search(r'^\.m0\(([^)]*)\)', src, re.M).group(1).split(','))
        args = ', '.join(['2px + @zzundefined'] + ['1px'] * (narg - 1))
        out.append(('undefined-variable', src[:p + 1] + ' .m0(%s); ' % args + src[p + 1:]))
    return out


def sources(rng, tier):
    from checks import C02, C03, C05, C07, C19
    n = 8 if tier == 'quick' else 120
    srcs = []
    for _ in range(n):
        srcs.append(C02.render_item(C02.rand_tree(rng, 1, False, 3), rng))
        srcs.append(C03.render(C03.rand_program(rng)))
        srcs.append(C05.render(C05.rand_program(rng, 'quick'), rng))
        srcs.append('@w: 7px;\n' + C07.render(C07.rand_media_tree(rng, 0, 3, False, False), rng))
        srcs.append('@w: 5px;\n@c: #f00;\n' + C19.render([C19.rand_item(rng) for _ in range(rng.randrange(1, 5))], rng))
    # line counting through comments, multi-line strings (plain and interpolated, line break right before an
    # interpolation / the closing quote) and CRLF
    PRE = ['/* one\n two\n three */\n', '// c\r\n// d\r\n\r\n', '@s0: k;\n.pre { content: "l1\nl2\n@{s0}"; top: "e\n"; }\n',
           '.pre2 { content: "a\n\n@{s1}\n"; }\n@s1: z;\n', '.pre3 {\r\n  color: red; /* x\r\n y */\r\n}\r\n']
    srcs = [(rng.choice(PRE) + rng.choice(PRE) + s_) if rng.random() < 0.6 else s_ for s_ in srcs]
    srcs.append('.a{content:"x;y}z";color:red}\n.b{font-family:"A B",\'c\',serif;\nwidth:(1px + 2)*3}\n/* c\n c */\n@v:"multi\nline";\n.c{x:@v;y:1}')
    return srcs



def _import_job(job):
    """compile main.less that imports a file holding `src` (shape 0: directly, 1: through a second file in a sub-directory, 2: inside a rule)"""
    src, shape = job
    C.use_repo()
    import lesscpy
    import shutil
    import signal
    d = tempfile.mkdtemp(prefix='verif_c15i_')
    old = signal.signal(signal.SIGALRM, C._alarm)
    signal.setitimer(signal.ITIMER_REAL, 60)
    try:
        os.mkdir(os.path.join(d, 'sub'))
        with open(os.path.join(d, 'sub', 'broken.less'), 'w') as f:
            f.write(src)
        with open(os.path.join(d, 'mid.less'), 'w') as f:
            f.write('.mid{top:0}\n@import "sub/broken";\n')
        with open(os.path.join(d, 'main.less'), 'w') as f:
            f.write(['.pre{left:0}\n@import "sub/broken.less";\n.post{right:0}\n', '@import "mid";\n.post{right:0}\n',
                     '.wrap{@import "sub/broken";}\n.post{right:0}\n'][shape])
        if shape == 2:
            # inside a rule the text means something else than at the top level (a mixin defined there is local to the rule, a call that
            # no longer finds it is ignored together with its arguments): what must be reported is what the pasted text reports
            try:
                lesscpy.compile(io.StringIO('.wrap{%s}\n.post{right:0}\n' % src), minify=True)
                return ('pasted-compiles', '')
            except C.HarnessTimeout:
                return ('timeout', 60, '', ['HarnessTimeout'])
            except BaseException:  # noqa
                pass
        try:
            with open(os.path.join(d, 'main.less')) as fh:
                return ('ok', lesscpy.compile(fh, minify=True))
        except C.HarnessTimeout:
            return ('timeout', 60, '', ['HarnessTimeout'])
        except BaseException as e:  # noqa
            return ('err', type(e).__name__, str(e)[:300], [c.__name__ for c in type(e).__mro__])
    finally:
        signal.setitimer(signal.ITIMER_REAL, 0)
        signal.signal(signal.SIGALRM, old)
        shutil.rmtree(d, ignore_errors=True)


UNDEF_SITES = [
    '.a{top:@zz}', '.a{top:1px + @zz}', '.a{top:f(@zz)}', '.a-@{zz}{top:0}', '.a{.b-@{zz}{top:0}}', '.a{content:"x@{zz}y"}', '.a{content:~"x@{zz}y"}',
    '@media (min-width: @zz){.r{top:0}}', '@media screen and (min-width: @zz){.r{top:0}}', '.a{@media (min-width: @zz){top:0}}',
    '@media (min-width: @zz + 1){.r{top:0}}', '.a{@media (min-width: @zz + 1){top:0}}', '@media (min-width: (@zz)){.r{top:0}}',
    '@import "@{zz}.less";\n.a{left:0}', '@import "@{zz}.css";\n.a{left:0}',
    '.m(@a){top:@a}\n.b{.m(@zz);}', '.m(@a: @zz){top:@a}\n.b{.m;}', '.m(@a) when (@a > @zz){top:@a}\n.b{.m(1);}', '@y: @zz;\n.a{top:@y}',
    '.a{top:@@zz}', '@k: "zz";\n.a{top:@@k}', '@keyframes k{from{top:@zz}}', '.a{background:url("@{zz}")}', '.a{color:darken(@zz, 10%)}',
    '.a{@media print{.b{top:@zz}}}', '.m(){top:@zz}\n.a{.m;}', '.a{&-@{zz}{top:0}}',
]


def run(tier):
    chk = C.Check(PROP, tier, 'proof')
    rng = random.Random(C.seed() * 236887691 + 15)
    build = C.lean_build(PROP)
    audit = open(os.path.join(C.LEAN, 'Lessm', 'Audit', 'C15.lean')).read()
    theorems = re.findall(r'#print axioms (\S+)', audit)
    # second proof module: the verdict on TEXT (front end model composed with the LR driver and the balance theorems)
    b2 = C.lean_build('C15Text', theorems_module='Lessm.Props.C15Text', extract=False)
    build.ok = build.ok and b2.ok
    build.log += '\n' + b2.log
    build.axioms.update(b2.axioms)
    build.failed_modules += b2.failed_modules
    build.audit_problems += b2.audit_problems
    theorems += re.findall(r'#print axioms (\S+)', open(os.path.join(C.LEAN, 'Lessm', 'Audit', 'C15Text.lean')).read())
    missing = chk.set_proof(build, theorems, 'cd lean && lake build Lessm.Props.C15 Lessm.Audit.C15 Lessm.Props.C15Text Lessm.Audit.C15Text && '
                            'lake env lean Lessm/Audit/C15.lean && lake env lean Lessm/Audit/C15Text.lean')
    chk.cov['trusted_base'] = C.TRUSTED_BASE
    chk.cov['rule'] = ('programs of the generators of C02 C03 C05 C07 C19 + a string/comment sample; every corruption class applied at up to '
                       '%s positions per program. distinct by corrupted text; non-trivial = every corruption (the uncorrupted programs are '
                       'the control group and must be accepted)')
    srcs = [s for s in sources(rng, tier)]
    base = C.compile_many([(s, dict(minify=True)) for s in srcs])
    per_class = 3 if tier == 'quick' else 8
    cases = []
    for s, b in zip(srcs, base):
        if b[0] != 'ok':
            continue
        cases.append(('control', s))
        cases += corruptions(s, rng, per_class)
    # an undefined variable at every kind of site that evaluates one (several of these are evaluated inside grammar actions, where a raised
    # SyntaxError makes yacc drop input silently instead of reporting it)
    for site in UNDEF_SITES:
        cases.append(('undefined-variable', site))
        cases.append(('undefined-variable', '.pre{left:0}\n' + site + '\n.post{right:0}'))
    res = C.compile_many([(s, dict(minify=True)) for _k, s in cases])
    toks = C.pool().map(_tok_job, [s for _k, s in cases], chunksize=8)
    lines, idx = [], []
    for i, t in enumerate(toks):
        if t[0] == 'ok' and t[1]:
            lines.append(('c15.rec', ' '.join(x[0] for x in t[1])))
            idx.append(i)
    try:
        mout = dict(zip(idx, C.Driver().run(lines)))
    except Exception as e:
        mout = {}
        build.ok = False
        build.log += '\nDRIVER: %r' % e
    disagreements = []
    stats = {}
    for i, ((kind, src), r, t) in enumerate(zip(cases, res, toks)):
        stats[kind] = stats.get(kind, 0) + 1
        chk.count(src, nontrivial=(kind != 'control'))
        raised = r[0] == 'err' and ('SyntaxError' in r[3])
        if kind == 'control':
            if r[0] != 'ok':
                chk.violation({'kind': 'control-rejected', 'source': src, 'actual': list(r[:3])})
            continue
        # ---- oracle: the corruption must be reported
        silently = (r[0] == 'ok')
        if silently:
            # some corruptions happen to produce another well-formed program (e.g. deleting a colon of `a:hover`-like text,
            # inserting `}` right before an existing `}` of an enclosing block...): they are real violations only if
            # the text is structurally broken; decide with the model-independent balance of braces / quotes
            broken = not text_balanced(src) or kind in ('illegal-character', 'undefined-variable')
            if broken:
                chk.violation({'kind': 'silent', 'class': kind, 'source': src, 'expected': 'CompilationError or SyntaxError', 'actual': r[1][:300]})
                if len(chk.violations) > 5:
                    break
            continue
        if not raised:
            chk.violation({'kind': 'wrong-exception', 'class': kind, 'source': src, 'expected': 'CompilationError or SyntaxError', 'actual': list(r[:3])})
            if len(chk.violations) > 5:
                break
            continue
        # ---- oracle on the diagnostic itself: the line it names must contain the token it names
        first0 = r[2].split('\n')[0]
        m0 = re.search(r'line: (\d+), Syntax Error, token: `([^`]*)`, `(.*)`$', first0)
        if m0:
            L, val = int(m0.group(1)), m0.group(3)
            src_lines = src.split('\n')
            probe = val.strip() if val.strip() else None
            if probe and probe != ';' and not (1 <= L <= len(src_lines) and probe in src_lines[L - 1]):
                chk.violation({'kind': 'wrong-line', 'class': kind, 'source': src, 'expected': 'the line of the offending token `%s`' % val,
                               'actual': first0})
                if len(chk.violations) > 5:
                    break
                continue
        # ---- tie: model on the real tables vs the real parser (first diagnostic)
        m = mout.get(i)
        if m is None or t[0] != 'ok':
            continue
        verdict = m.split(' | ')[0]
        first = r[2].split('\n')[0]
        mm = re.search(r'line: (\d+), Syntax Error, token: `([^`]*)`', first)
        eof = 'unexpected end of input' in first
        if verdict == 'accept':
            if mm or eof:
                disagreements.append((src[:300], m, first))
            continue          # accepted by the grammar, rejected later (unknown variable, ...): not the parser's business
        if verdict.startswith('error'):
            k = int(verdict.split()[1])
            if k < len(t[1]):
                want_ty, _v, _lexer_line, lexpos = t[1][k]
                # the line is computed from the text itself (1 + line feeds before the token), not taken from the lexer
                want_line = 1 + src.count('\n', 0, lexpos)
                if not mm or mm.group(2) != want_ty or int(mm.group(1)) != want_line:
                    disagreements.append((src[:300], '%s -> token %s line %d' % (m, want_ty, want_line), first))
            else:
                if not eof:
                    disagreements.append((src[:300], m + ' (end of input)', first))
        else:
            disagreements.append((src[:300], m, first))
    # ---- the same corruptions inside an IMPORTED file (direct, nested, inside a rule): the library call on the importing file must raise
    import_sample = [c for c, r in zip(cases, res) if c[0] != 'control' and r[0] == 'err']
    import_sample = rng.sample(import_sample, min(len(import_sample), 30 if tier == 'quick' else 300))
    ires = C.pool().map(_import_job, [(src, k % 3) for k, (_kind, src) in enumerate(import_sample)], chunksize=2)
    stats['imported_corruptions'] = len(import_sample)
    for k, ((kind, src), r) in enumerate(zip(import_sample, ires)):
        chk.count(('import', k % 3, src), nontrivial=True)
        if r[0] == 'pasted-compiles':
            continue
        if r[0] == 'ok':
            chk.violation({'kind': 'silent-import', 'class': kind, 'shape': ['direct', 'nested', 'in-rule'][k % 3], 'source': src,
                           'expected': 'CompilationError or SyntaxError: the corrupted text is in an imported file', 'actual': r[1][:300]})
            if len(chk.violations) > 5:
                break
        elif not (r[0] == 'err' and 'SyntaxError' in r[3]):
            chk.violation({'kind': 'wrong-exception', 'class': kind, 'shape': ['direct', 'nested', 'in-rule'][k % 3], 'source': src,
                           'expected': 'CompilationError or SyntaxError', 'actual': list(r[:3])})
            if len(chk.violations) > 5:
                break
    # ---- the command line prints a diagnostic
    tmpd = tempfile.mkdtemp(prefix='verif_c15_')
    try:
        sample = [c for c in cases if c[0] != 'control']
        sample = rng.sample(sample, min(len(sample), 24 if tier == 'quick' else 200))
        for j, (kind, src) in enumerate(sample):
            pth = os.path.join(tmpd, 'b%d.less' % j)
            with open(pth, 'w') as f:
                f.write(src)

        def run_cli(j):
            p = subprocess.run([C.PY, '-W', 'ignore', '-m', 'lesscpy', os.path.join(tmpd, 'b%d.less' % j)], capture_output=True, text=True, cwd=C.REPO, timeout=120)
            return p.returncode, p.stdout, p.stderr
        from concurrent.futures import ThreadPoolExecutor
        with ThreadPoolExecutor(C.NPROC) as ex:
            cres = list(ex.map(run_cli, range(len(sample))))
        for (kind, src), (rc, out, err) in zip(sample, cres):
            chk.count(('cli', src), nontrivial=True)
            lib = C.real_compile(src, minify=True)
            if lib[0] == 'ok':
                continue
            if not (err.strip() or rc != 0):
                chk.violation({'kind': 'cli-silent', 'class': kind, 'source': src, 'expected': 'a diagnostic on stderr or a non-zero exit status',
                               'actual': {'rc': rc, 'stdout': out[:200], 'stderr': err[:200]}})
                break
    finally:
        import shutil
        shutil.rmtree(tmpd, ignore_errors=True)
    for k in (1, 2, len(cases) - 1):
        chk.sample({'class': cases[k][0], 'source': cases[k][1][:300], 'real': list(res[k][:3]) if res[k][0] != 'ok' else 'compiled', 'model': mout.get(k)})
    C.replay_known(chk, PROP)
    chk.cov['disagreements_checked'] = len(disagreements)
    chk.cov['exhaustive'] = False
    chk.cov['distribution'] = stats
    # the character-level front end (regular expressions regenerated from the lexer object, hand-modelled rule functions, token filter
    # with its feedback, LALR driver on the regenerated tables) against the real lexer / parser on TEXT
    import front
    ntexts, fdis, escapes = front.run(chk, rng, tier, want=('filtered', 'parse'))
    for e_ in escapes[:3]:
        # the property itself: whatever the text, the library call ends in a result or in CompilationError / SyntaxError
        chk.violation({'kind': 'escaped-exception', 'class': 'damaged-text', 'source': e_['source'], 'expected': 'a result, CompilationError or SyntaxError',
                       'actual': e_['exception'], 'text_name': e_['name']})
    chk.cov['front_end_texts'] = ntexts
    disagreements.extend(fdis)
    C.tie_verdict(chk, build, missing, disagreements, 'Lessm.LR.recognise on the regenerated tables vs ply.yacc driven by LessParser',
                  'all single corruptions of the generated programs were reported by the real code: no failing input')
    return chk.finish()


def text_balanced(src):
    depth = 0
    i, n = 0, len(src)
    while i < n:
        c = src[i]
        if c in '"\'':
            j = src.find(c, i + 1)
            if j < 0:
                return False
            i = j + 1
            continue
        if src.startswith('/*', i):
            j = src.find('*/', i + 2)
            if j < 0:
                return False
            i = j + 2
            continue
        if src.startswith('//', i):
            j = src.find('\n', i)
            i = n if j < 0 else j
            continue
        if src.startswith('@{', i):
            j = src.find('}', i)
            i = n if j < 0 else j + 1
            continue
        if c == '{':
            depth += 1
        elif c == '}':
            depth -= 1
            if depth < 0:
                return False
        i += 1
    return depth == 0


def replay(path):
    d = json.load(open(path))
    src = d.get('source')
    if not src:
        print('replay: nothing executable in', path)
        return 2
    r = C.real_compile(src, minify=True)
    print('source  :', src)
    print('actual  :', r[:3])
    bad = (r[0] == 'ok') if d['kind'] in ('silent',) else (r[0] != 'ok' and 'SyntaxError' not in r[3]) or (d['kind'] == 'control-rejected' and r[0] != 'ok')
    if bad:
        print('VIOLATION property=%s replay=%s' % (PROP, path))
        return 1
    print('replay: property holds on this input now')
    return 0
