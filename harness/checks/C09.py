"""
C09  Colour functions agree with exact RGB/HSL mathematics.

Proof side : lean/Lessm/Props/C09.lean over the exact model lean/Lessm/Model/ColorFn.lean.
Tie        : the float implementation against the exact rational model: short colours (all 4096 in the
             thorough tier, 512 in quick) + random 24-bit colours x every function x a dense amount grid
             (0, small, 50, 100, out-of-range, negative; 0..720 and negative degrees for spin; weights
             0..150 for mix).
Observation: per channel equal to the exact value rounded to the nearest integer, either neighbour
             when the exact value is a tie (within 1e-9 of .5); mix, which truncates, within one unit;
             extractors numerically to 1e-9 relative.  The exact values come from the Lean model; an
             independent Python transcription with Fractions is the property oracle.
"""
import colorsys  # noqa  (only to make explicit that the oracle below does NOT use it)
import json
import random
import re
from fractions import Fraction

import common as C

PROP = 'C09'
THEOREMS_WANTED = ['C09_roundtrip', 'C09_hls_in_range', 'C09_rgb_in_range', 'C09_identity0', 'C09_spin0', 'C09_spin_wrap',
                   'C09_grey', 'C09_wf', 'C09_round_near', 'C09_round_near_even', 'C09_ophsl_near', 'C09_component',
                   'C09_mix_ends', 'C09_mix_trunc', 'C09_extract_range']
F = Fraction


# ---- independent oracle: RGB<->HLS over Fractions (textbook formulas, not a copy of the Lean model)
def rgb_to_hls(r, g, b):
    mx, mn = max(r, g, b), min(r, g, b)
    l = (mx + mn) / 2
    if mx == mn:
        return F(0), l, F(0)
    d = mx - mn
    s = d / (mx + mn) if l <= F(1, 2) else d / (2 - mx - mn)
    if mx == r:
        h = ((g - b) / d) % 6
    elif mx == g:
        h = (b - r) / d + 2
    else:
        h = (r - g) / d + 4
    return (h / 6) % 1, l, s


def hue_to_rgb(m1, m2, h):
    h = h % 1
    if h < F(1, 6):
        return m1 + (m2 - m1) * h * 6
    if h < F(1, 2):
        return m2
    if h < F(2, 3):
        return m1 + (m2 - m1) * (F(2, 3) - h) * 6
    return m1


def hls_to_rgb(h, l, s):
    if s == 0:
        return l, l, l
    m2 = l * (1 + s) if l <= F(1, 2) else l + s - l * s
    m1 = 2 * l - m2
    return hue_to_rgb(m1, m2, h + F(1, 3)), hue_to_rgb(m1, m2, h), hue_to_rgb(m1, m2, h - F(1, 3))


def clamp01(x):
    return min(F(1), max(F(0), x))


def exact(fn, c, a):
    r, g, b = [F(v, 255) for v in c]
    h, l, s = rgb_to_hls(r, g, b)
    if fn == 'lighten':
        l = clamp01(l + a / 100)
    elif fn == 'darken':
        l = clamp01(l - a / 100)
    elif fn == 'saturate':
        s = clamp01(s + a / 100)
    elif fn == 'desaturate':
        s = clamp01(s - a / 100)
    elif fn == 'greyscale':
        s = F(0)
    elif fn == 'spin':
        h = ((h * 360 + a) % 360) / 360
    return [v * 255 for v in hls_to_rgb(h, l, s)]


def near_ok(got, ex, slack=F(1, 10 ** 6)):
    """got is the nearest integer to ex, either neighbour at (numerically) a tie; result clamped to 0..255"""
    lo = min(F(255), max(F(0), ex))
    return abs(F(got) - lo) <= F(1, 2) + slack


def parse_hex(t):
    m = re.fullmatch(r'#([0-9a-f]{6})', t or '')
    if not m:
        return None
    d = m.group(1)
    return tuple(int(d[i:i + 2], 16) for i in (0, 2, 4))


def hexs(c):
    return '#%02x%02x%02x' % tuple(c)


def qs(q):
    q = F(q)
    return '%d/%d' % (q.numerator, q.denominator)


def lit(c, rng):
    if all(v % 17 == 0 for v in c) and rng.random() < 0.7:
        return '#' + ''.join('%x' % (v // 17) for v in c)
    return hexs(c)


AMOUNTS = ['0', '0.5', '1', '5', '10', '12.5', '20', '33', '50', '66.6', '75', '99', '100', '120', '250', '-10', '-50']
ANGLES = ['0', '1', '30', '45', '60', '90', '119', '120', '180', '240', '270', '359', '360', '361', '480', '720', '-30', '-90', '-360', '-400', '12.5']
WEIGHTS = ['0', '1', '10', '25', '33', '50', '66', '75', '90', '99', '100', '150', '12.5']


def gen_cases(tier, rng):
    cols = []
    step = 1 if tier == 'thorough' else 2
    for a in range(0, 16, 1):
        for b in range(0, 16, step):
            for c in range(0, 16, step if tier == 'thorough' else 4):
                cols.append((a * 17, b * 17, c * 17))
    nrand = 300 if tier == 'quick' else 3000
    for _ in range(nrand):
        cols.append(tuple(rng.randrange(256) for _ in range(3)))
    cases = []
    for ci, c in enumerate(cols):
        dense = (tier == 'thorough') or ci % 4 == 0
        ams = AMOUNTS if dense else rng.sample(AMOUNTS, 4)
        for fn in ('lighten', 'darken', 'saturate', 'desaturate'):
            for a in ams:
                cases.append((fn, c, a, '%' if rng.random() < 0.7 else ''))
        for a in (ANGLES if dense else rng.sample(ANGLES, 5)):
            cases.append(('spin', c, a, ''))
        cases.append(('greyscale', c, None, ''))
        for fn in ('hue', 'saturation', 'lightness'):
            cases.append((fn, c, None, ''))
        c2 = cols[(ci * 7 + 3) % len(cols)]
        for w in (WEIGHTS if dense else rng.sample(WEIGHTS, 3)):
            cases.append(('mix', c, (c2, w), '%' if rng.random() < 0.7 else ''))
        cases.append(('mix2', c, c2, ''))
    # hsl grid
    hs = list(range(-60, 421, 15)) + [1, 359, 361, 719]
    for h in hs:
        for s in (0, 1, 25, 50, 99, 100) if tier == 'quick' else (0, 1, 10, 25, 33, 50, 75, 99, 100):
            for l in (0, 1, 25, 50, 75, 100) if tier == 'quick' else (0, 1, 10, 25, 33, 50, 66, 75, 99, 100):
                cases.append(('hsl', (h, s, l), None, ''))
    return cases


def render(i, case, rng_lit):
    fn, c, a, u = case
    if fn == 'hsl':
        return '.c%d{x:hsl(%d, %d%%, %d%%)}' % ((i,) + c)
    if fn == 'mix':
        c2, w = a
        return '.c%d{x:mix(%s, %s, %s%s)}' % (i, rng_lit[i][0], rng_lit[i][1], w, u)
    if fn == 'mix2':
        return '.c%d{x:mix(%s, %s)}' % (i, rng_lit[i][0], rng_lit[i][1])
    if a is None:
        return '.c%d{x:%s(%s)}' % (i, fn, rng_lit[i][0])
    return '.c%d{x:%s(%s, %s%s)}' % (i, fn, rng_lit[i][0], a, u)


def model_line(case):
    fn, c, a, _u = case
    if fn == 'hsl':
        return ('c09.fn', 'hsl %d %s %s' % (c[0], qs(F(c[1], 100)), qs(F(c[2], 100))))
    if fn == 'mix':
        c2, w = a
        return ('c09.fn', 'mix %d %d %d %d %d %d %s' % (c + c2 + (qs(F(w)),)))
    if fn == 'mix2':
        return ('c09.fn', 'mix %d %d %d %d %d %d 50/1' % (c + a))
    if a is None:
        return ('c09.fn', '%s %d %d %d' % ((fn,) + c))
    return ('c09.fn', '%s %d %d %d %s' % ((fn,) + c + (qs(F(a)),)))


def run(tier):
    chk = C.Check(PROP, tier, 'proof')
    rng = random.Random(C.seed() * 49979687 + 9)
    build = C.lean_build(PROP)
    # the set of theorems is whatever the audit file lists (the proof file grows); all must be clean
    import os
    audit = open(os.path.join(C.LEAN, 'Lessm', 'Audit', 'C09.lean')).read()
    theorems = ['Lessm.ColorFn.' + t for t in re.findall(r'#print axioms (\S+)', audit)]
    missing = chk.set_proof(build, theorems, 'cd lean && lake build Lessm.Props.C09 Lessm.Audit.C09 && lake env lean Lessm/Audit/C09.lean')
    chk.cov['trusted_base'] = C.TRUSTED_BASE
    chk.cov['rule'] = ('colours: short-form grid (all 4096 in thorough, 512 in quick) + random 24-bit; per colour every function over the '
                       'amount/angle/weight grid (dense for every 4th colour in quick, always in thorough); hsl over a (h,s,l) grid. '
                       'distinct by (function, colour, amount); non-trivial = amount not 0 and result differs from the input colour')
    cases = gen_cases(tier, rng)
    lits = []
    for fn, c, a, _u in cases:
        if fn == 'hsl':
            lits.append(None)
        elif fn == 'mix':
            lits.append((lit(c, rng), lit(a[0], rng)))
        elif fn == 'mix2':
            lits.append((lit(c, rng), lit(a, rng)))
        else:
            lits.append((lit(c, rng),))
    try:
        model = C.Driver().run([model_line(c) for c in cases])
    except Exception as e:
        model = [None] * len(cases)
        build.ok = False
        build.log += '\nDRIVER: %r' % e
    out, errs = C.compile_cases(cases, lambda i, c: render(i, c, lits), chunk=2000)
    disagreements = []
    for i, case in enumerate(cases):
        fn, c, a, u = case
        got_txt = out.get(i)
        src = render(i, case, lits)
        bad = None
        nontriv = True
        if fn in ('hue', 'saturation', 'lightness'):
            r, g, b = [F(v, 255) for v in c]
            h, l, s = rgb_to_hls(r, g, b)
            want = {'hue': h * 360, 'saturation': s * 100, 'lightness': l * 100}[fn]
            try:
                gv = F(got_txt)
            except (ValueError, TypeError, ZeroDivisionError):
                gv = None
            if gv is None or abs(gv - want) > F(1, 10 ** 9) * max(1, abs(want)) + (F(1, 2000) if fn == 'hue' else 0):
                bad = 'extractor value'
            elif model[i] is not None and F(model[i]) != want:
                disagreements.append((src, model[i], str(want)))
            nontriv = want != 0
        else:
            got = parse_hex(got_txt)
            if fn == 'hsl':
                ex = [v * 255 for v in hls_to_rgb(F(c[0], 360), F(c[2], 100), F(c[1], 100))]
            elif fn == 'mix':
                w = F(a[1]) / 100
                ex = [F(x) * w + F(y) * (1 - w) for x, y in zip(c, a[0])]
            elif fn == 'mix2':
                ex = [F(x) / 2 + F(y) / 2 for x, y in zip(c, a)]
            else:
                ex = exact(fn, c, F(a) if a is not None else F(0))
            if got is None:
                bad = 'not a well-formed colour'
            elif fn in ('mix', 'mix2'):
                for gch, e in zip(got, ex):
                    e = min(F(255), max(F(0), e))
                    if abs(F(gch) - e) > 1 + F(1, 10 ** 6):
                        bad = 'mix channel off by more than one unit'
            else:
                for gch, e in zip(got, ex):
                    if not near_ok(gch, e):
                        bad = 'channel is not the nearest integer to the exact value'
            if model[i] is not None and not bad:
                try:
                    left, right = model[i].split(' | ')
                    mex = [F(x) for x in right.split(' ')]
                    mround = tuple(int(x) for x in left.split(' '))
                    if mex != ex:
                        disagreements.append((src, 'model exact ' + right, 'oracle exact ' + ' '.join(str(x) for x in ex)))
                    elif mround != got:
                        # allowed only at ties (either neighbour) or for mix truncation noise
                        tie = any(abs((e % 1) - F(1, 2)) < F(1, 10 ** 6) for e in ex) or fn in ('mix', 'mix2')
                        if not tie:
                            disagreements.append((src, 'model ' + left, 'real ' + str(got)))
                except ValueError:
                    disagreements.append((src, model[i], got_txt))
            nontriv = (a not in (None, '0')) and got != tuple(c[:3])
        chk.count((fn, c, str(a)), nontrivial=nontriv)
        if bad:
            chk.violation({'kind': 'colorfn', 'why': bad, 'source': src, 'actual': got_txt, 'model': model[i],
                           'expected': 'exact channels ' + ', '.join(str(float(x)) for x in (ex if fn not in ('hue', 'saturation', 'lightness') else [want]))})
            if len(chk.violations) > 6:
                break
    for i, rr in errs[:3]:
        chk.violation({'kind': 'colorfn-error', 'source': render(i, cases[i], lits), 'actual': list(rr)})
    for k in (1, 17, len(cases) // 2, len(cases) - 3):
        chk.sample({'source': render(k, cases[k], lits), 'real': out.get(k), 'model': model[k]})
    # ---- functional notation prints decimal channels (rgba) ; rgb()
    fx = []
    for _ in range(60 if tier == 'quick' else 600):
        c = tuple(rng.randrange(256) for _ in range(3))
        al = rng.choice(['0', '0.5', '0.25', '.75'])
        fx.append(('rgba', c, al))
        fx.append(('rgb', c, None))
    fres = C.compile_many([('.a{x:%s(%s%s)}' % (f, ', '.join(map(str, c)), (', ' + al) if al else ''), dict(minify=True)) for f, c, al in fx])
    for (f, c, al), r in zip(fx, fres):
        chk.count((f, c, al), nontrivial=True)
        txt = r[1] if r[0] == 'ok' else ''
        if f == 'rgb':
            ok = ('x:%s;' % hexs(c)) in txt
        else:
            m = re.search(r'x:rgba\(([^)]*)\)', txt)
            ok = bool(m) and [p.strip() for p in m.group(1).split(',')][:3] == [str(v) for v in c]
        if not ok:
            chk.violation({'kind': 'functional', 'source': '.a{x:%s(%s%s)}' % (f, ', '.join(map(str, c)), (', ' + al) if al else ''),
                           'expected': 'decimal channels %s' % (c,), 'actual': list(r)})
            break
    for f in C.known_findings(PROP):
        r = C.real_compile(f['input'], minify=True)
        if not (r[0] == 'ok' and f['expected_fragment'] in r[1]):
            chk.known('%s (input %r gives %s)' % (f['what'], f['input'], r[1] if r[0] == 'ok' else r[1:3]))
    chk.cov['disagreements_checked'] = len(disagreements)
    chk.cov['exhaustive'] = (tier == 'thorough')
    chk.cov['function_evaluations'] = len(cases)
    C.tie_verdict(chk, build, missing, disagreements, 'Lessm.ColorFn.* vs lesscpy colour functions',
                  'the whole colour x amount grid was run against the real code: no failing input')
    return chk.finish()


def replay(path):
    d = json.load(open(path))
    src = d.get('source')
    if not src:
        print('replay: nothing executable in', path)
        return 2
    r = C.real_compile(src, minify=True)
    print('source  :', src)
    print('actual  :', r)
    print('expected:', d.get('expected'))
    bad = not (r[0] == 'ok' and d.get('actual') not in r[1])
    if bad:
        print('VIOLATION property=%s replay=%s' % (PROP, path))
        return 1
    print('replay: output differs from the recorded failing output now')
    return 0
