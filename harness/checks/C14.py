"""
C14  @import of a LESS file equals textual inclusion; other imports are kept.

Proof side : lean/Lessm/Props/C14.lean about lean/Lessm/Model/Import.lean (`load`: path resolution relative to the importing
             file, optional extension, LESS / non-LESS decision, recursive parser per import, splice of the imported units at
             the position of the statement, missing files registered as errors, level limit).
Tie        : random programs (sequences of units from a pool that shares variables and mixins across units) are cut into random
             trees of files and sub-directories (extension written or not, quote styles, url() form, imports inside rules and
             @media blocks, the same file imported twice, missing files, non-LESS imports with and without media lists).
             The model computes the flattened unit list of the root file (driver op c14.load); compiling that text with the
             real compiler must give byte-for-byte what the real compiler gives for the split tree.
Oracle     : independent of Lean: a Python inliner pastes every imported file in place of its statement; compile(split tree)
             must equal compile(pasted text); non-LESS imports must appear verbatim at their position; a missing .less file
             must end in a CompilationError naming it.
"""
import contextlib
import io
import json
import os
import random
import re
import shutil
import tempfile

import common as C

PROP = 'C14'
THEOREMS_REQUIRED = ['Lessm.Imp.C14_inline', 'Lessm.Imp.C14_post', 'Lessm.Imp.C14_stmt', 'Lessm.Imp.C14_missing']

# units that interact through variables and mixins; every program starts with DEFAULTS so that any subset is valid
DEFAULTS = '@c: red;\n@w: 2px;\n@lim: 1;\n'
POOL = [
    '.a{color:@c}',
    '.b{width:@w * 2; .n{height:@w}}',
    '@c: blue;',
    '@w: 5px;',
    '.m(){top:@w}',
    '.m(@x){left:@x}',
    '.k{.m;}',
    '.l{.m(3px);}',
    '.g(@a) when (@a > @lim){right:@a}',
    '.h{.g(2); .g(0);}',
    '@lim: 5;',
    '@media print{.p{color:@c}}',
    '@media screen and (min-width:10px){.q{.m;}}',
    '@keyframes spin{from{top:0} to{top:@w}}',
    '.box{.inner{color:@c; &:hover{color:black}}}',
    '.r{.box;}',
    '.s{.box .inner;}',
    '@font-face {font-family:x; src:url("a.woff")}',
    '.t{width:(@w + 1) * 2}',
    '@z: @w;',
    '.u{width:@z}',
    '.e{content:"@{c}"}',
    '@charset "utf-8";',
    '.v1, .v2{bottom:0}',
    '.sel-@{lim}{top:1px}',
    '.tr{transition:all 1s}',
    '.sp{speak:all; color:@c}',
    '.btn-@{lim}{color:@c; width:@w}',
]
FOREIGN = ['@import "x.css";', '@import url("y.css");', '@import "z.css" screen;', '@import url("w.css") print, screen;', "@import 'v.css';",
           '@import "http://example.com/a.css";', '@import "theme.less?v=2";', '@import "p.php";']
DIRS = ['', 'sub', 'sub/deep', 'lib', 'a.b']


class Node:
    """a file: list of ('unit', text) | ('import', Node, written path, form) | ('foreign', text) | ('block', selector, Node, path, form) | ('missing', path)"""

    def __init__(self, path):
        self.path = path
        self.items = []


def rel(from_path, to_path):
    return os.path.relpath(to_path, os.path.dirname(from_path) or '.')


def write_import(rng, importer, target):
    p = rel(importer, target)
    if rng.random() < 0.5 and p.endswith('.less'):
        p = p[:-5]
    form = rng.choice(['"%s"', '"%s"', "'%s'", 'url("%s")', "url('%s')"])
    return '@import %s;' % (form % p), p


def build_tree(rng, units, counter, path, depth):
    """cut `units` into a tree of files rooted at `path`"""
    node = Node(path)
    i = 0
    while i < len(units):
        r = rng.random()
        if depth < 4 and r < 0.3 and len(units) - i >= 1:
            n = rng.randrange(1, min(5, len(units) - i) + 1)
            counter[0] += 1
            d = rng.choice(DIRS)
            child_path = os.path.normpath(os.path.join(os.path.dirname(path), d, 'f%d.less' % counter[0]))
            if child_path.startswith('..'):
                child_path = 'f%d.less' % counter[0]
            child = build_tree(rng, units[i:i + n], counter, child_path, depth + 1)
            node.items.append(('import', child))
            if rng.random() < 0.15:
                node.reimport = child                       # the same file a second time, further down (see below)
            i += n
        else:
            node.items.append(('unit', units[i]))
            i += 1
    if getattr(node, 'reimport', None) is not None:
        k = max(j for j, it in enumerate(node.items) if it[0] == 'import' and it[1] is node.reimport)
        node.items.insert(rng.randrange(k + 1, len(node.items) + 1), ('import', node.reimport))
    if rng.random() < 0.25:
        st = rng.choice(FOREIGN)
        m = re.search(r'["\'(]([^"\'()]+)["\')]', st)
        node.items.insert(rng.randrange(len(node.items) + 1), ('foreign', st, m.group(1)))
    return node


def render_tree(rng, node, files, inlined, model_files):
    """fills files[path] = text; returns the pasted text of this node; model_files[path] = unit list for the driver"""
    text, paste, munits = [], [], []
    for it in node.items:
        if it[0] == 'unit':
            text.append(it[1])
            paste.append(it[1])
            munits.append({'u': it[1]})
        elif it[0] == 'foreign':
            text.append(it[1])
            paste.append(it[1])
            munits.append({'i': it[2], 'raw': it[1]})
        elif it[0] == 'missing':
            text.append(it[1])
            munits.append({'i': it[2], 'raw': it[1]})
        elif it[0] == 'import':
            child = it[1]
            if child.path not in files:
                render_tree(rng, child, files, inlined, model_files)
            stmt, written = write_import(rng, node.path, child.path)
            text.append(stmt)
            paste.append(inlined[child.path])
            munits.append({'i': written, 'raw': stmt})
        elif it[0] == 'block':
            child = it[2]
            if child.path not in files:
                render_tree(rng, child, files, inlined, model_files)
            stmt, written = write_import(rng, node.path, child.path)
            text.append('%s{%s}' % (it[1], stmt))
            paste.append('%s{%s}' % (it[1], inlined[child.path]))
            munits.append({'u': '%s{%s}' % (it[1], inlined[child.path])})     # block-level imports are pasted by the harness for the model
    files[node.path] = '\n'.join(text) + '\n'
    inlined[node.path] = '\n'.join(paste)
    model_files[node.path] = munits
    return inlined[node.path]


def rand_case(rng, idx):
    n = rng.randrange(3, 11)
    units = [rng.choice(POOL) for _ in range(n)]
    counter = [0]
    root = build_tree(rng, units, counter, 'main.less', 0)
    kind = 'plain'
    # a block-level import, a missing file (non-LESS imports are sprinkled by build_tree)
    if rng.random() < 0.25:
        counter[0] += 1
        child = Node(rng.choice(['blk%d.less', 'sub/blk%d.less']) % counter[0])
        child.items = [('unit', u) for u in rng.sample(['.n1{left:@w}', '.n2{color:@c; .n3{top:0}}', '.n4{.m;}', '&-x{top:0}'], rng.randrange(1, 3))]
        pos = rng.randrange(len(root.items) + 1)
        root.items.insert(pos, ('block', rng.choice(['.blk', '@media print', '.o .p']), child))
        if rng.random() < 0.5:
            # the same file once more, under another parent and (sometimes) after a redefinition: every import is evaluated where it stands
            pos2 = rng.randrange(pos + 1, len(root.items) + 1)
            if rng.random() < 0.5:
                root.items.insert(pos2, ('unit', rng.choice(['@w: 9px;', '@c: green;'])))
                pos2 += 1
            root.items.insert(pos2, ('block', rng.choice(['.blk2', '.c .d', '@media screen']), child))
        kind = 'block'
    missing = None
    if rng.random() < 0.1:
        missing = rng.choice(['nope', 'nope.less', 'sub/nope', '../nope.less'])
        root.items.insert(rng.randrange(len(root.items) + 1), ('missing', '@import "%s";' % missing, missing))
        kind = 'missing'
    if kind == 'plain' and rng.random() < 0.08:
        # something that does not parse, in the root or in an imported file: both ways of compiling must end in a CompilationError
        nodes = [root]
        stack = [root]
        while stack:
            nd = stack.pop()
            for it in nd.items:
                if it[0] == 'import' and it[1] not in nodes:
                    nodes.append(it[1])
                    stack.append(it[1])
        tgt = rng.choice(nodes)
        tgt.items.insert(rng.randrange(len(tgt.items) + 1), ('unit', rng.choice(['.bad{top:1px', 'top:1px;', '.bad{top:}', '}', '.bad{width:(1px}'])))
        kind = 'broken'
    root.items.insert(0, ('unit', DEFAULTS.strip()))
    files, inlined, model_files = {}, {}, {}
    pasted = render_tree(rng, root, files, inlined, model_files)
    if kind == 'plain' and any(st in t for t in files.values() for st in FOREIGN):
        kind = 'foreign'
    return {'files': files, 'pasted': pasted + '\n', 'model_files': model_files, 'kind': kind, 'missing': missing,
            'nfiles': len(files), 'depth': max(p.count('/') for p in files)}


def compile_tree(files, root='main.less'):
    C.use_repo()
    import lesscpy
    import signal
    d = tempfile.mkdtemp(prefix='c14-')
    old = signal.signal(signal.SIGALRM, C._alarm)
    signal.setitimer(signal.ITIMER_REAL, 120)
    try:
        for p, s in files.items():
            fp = os.path.join(d, p)
            os.makedirs(os.path.dirname(fp), exist_ok=True)
            with open(fp, 'w') as f:
                f.write(s)
        err = io.StringIO()
        try:
            with contextlib.redirect_stderr(err), open(os.path.join(d, root)) as fh:
                return ('ok', lesscpy.compile(fh, minify=True))
        except C.HarnessTimeout:
            return ('timeout', 120, '', ['HarnessTimeout'])
        except BaseException as e:  # noqa
            return ('err', type(e).__name__, str(e)[:500].replace(d, ''), [c.__name__ for c in type(e).__mro__])
    finally:
        signal.setitimer(signal.ITIMER_REAL, 0)
        signal.signal(signal.SIGALRM, old)
        shutil.rmtree(d, ignore_errors=True)


def job(case):
    split = compile_tree(case['files'])
    pasted = compile_tree({'main.less': case['pasted']})
    return split, pasted


def norm_err(r):
    """errors are compared by class and by the kind of message, not by file names and line numbers"""
    if r[0] == 'ok':
        return r
    if r[0] == 'err':
        msg = re.sub(r'line: \d+', 'line: N', r[2])
        msg = re.sub(r'\S*\.less', 'F', msg)
        msg = msg.replace('(stream)', 'F')
        return ('err', r[1], sorted(set(l.strip() for l in msg.split('\n') if l.strip())))
    return r


def model_request(case):
    return json.dumps({'files': [[p, us] for p, us in case['model_files'].items()], 'root': 'main.less'})


def run(tier):
    chk = C.Check(PROP, tier, 'proof')
    rng = random.Random(C.seed() * 104729 + 14)
    build = C.lean_build(PROP)
    thms = sorted(set(t for t in build.axioms if t.startswith('Lessm.Imp.')) | set(THEOREMS_REQUIRED))
    missing_thms = chk.set_proof(build, thms, 'cd lean && lake build Lessm.Props.C14 Lessm.Audit.C14 && lake env lean Lessm/Audit/C14.lean')
    chk.cov['trusted_base'] = C.TRUSTED_BASE + [
        'C14: everything after the unit list is a parameter `post` of the model (the rest of the compiler, subject of C02-C07, C19); '
        'os.path (abspath, dirname, exists, splitext) is trusted to behave as the path functions of the model on the generated names']
    n = 250 if tier == 'quick' else 5000
    cases = [rand_case(rng, i) for i in range(n)]
    res = C.pool().map(job, cases, chunksize=2)
    try:
        answers = C.Driver().run([('c14.load', model_request(c)) for c in cases])
    except Exception as e:
        answers = [None] * len(cases)
        build.ok = False
        build.log += '\nDRIVER: %r' % e
    model_jobs, model_idx = [], []
    dist = {'plain': 0, 'foreign': 0, 'block': 0, 'missing': 0, 'broken': 0, 'files_total': 0, 'max_depth': 0, 'errors_both': 0}
    problems = 0
    disagreements = []
    for i, (case, (split, pasted)) in enumerate(zip(cases, res)):
        chk.count(case['files'], nontrivial=case['nfiles'] > 1)
        dist[case['kind']] += 1
        dist['files_total'] += case['nfiles']
        dist['max_depth'] = max(dist['max_depth'], case['depth'])
        bad = None
        if split[0] not in ('ok', 'err') or (split[0] == 'err' and 'CompilationError' not in split[3]):
            bad = 'the split tree ended as %r' % (split[:3],)
        elif case['missing']:
            if split[0] == 'ok':
                bad = 'missing file %r was ignored: output %r' % (case['missing'], split[1][:200])
            elif 'file not found' not in split[2] or os.path.basename(case['missing']).replace('.less', '') not in split[2]:
                bad = 'missing file %r not named in the error: %r' % (case['missing'], split[2])
        elif case['kind'] == 'broken':
            if pasted[0] != split[0]:
                bad = 'a unit that does not parse: split tree gives %r, pasted text gives %r' % (split[:3], pasted[:3])
        elif norm_err(split) != norm_err(pasted):
            bad = 'split tree gives %r, pasting the files in place gives %r' % (split[1:3] if split[0] != 'ok' else split[1], pasted[1:3] if pasted[0] != 'ok' else pasted[1])
        if split[0] == 'err' and pasted[0] == 'err':
            dist['errors_both'] += 1
        if not bad and case['kind'] == 'foreign' and split[0] == 'ok':
            st = [it for t in case['files'].values() for it in t.split('\n') if it in FOREIGN]
            for s_ in st:
                key = re.sub(r'\s+', '', s_.rstrip(';'))
                if key not in re.sub(r'\s+', '', split[1]):
                    bad = 'non-LESS import %r not copied to the output %r' % (s_, split[1][:300])
        if bad:
            chk.violation({'kind': 'import', 'files': case['files'], 'pasted': case['pasted'], 'problem': bad})
            problems += 1
            if problems > 5:
                break
            continue
        if answers[i] is not None and not case['missing'] and case['kind'] != 'broken':
            try:
                mj = json.loads(answers[i])
            except Exception:
                mj = None
            if not mj or mj.get('out') is None or mj.get('errs'):
                disagreements.append({'files': case['files'], 'model': answers[i][:500], 'note': 'model did not load the tree'})
            else:
                model_jobs.append({'main.less': '\n'.join(mj['out']) + '\n'})
                model_idx.append(i)
        elif answers[i] is not None and case['missing']:
            try:
                mj = json.loads(answers[i])
            except Exception:
                mj = {}
            if not any(str(e).startswith('missing') for e in mj.get('errs', [])):
                disagreements.append({'files': case['files'], 'model': answers[i][:500], 'note': 'model did not register the missing file'})
    mres = C.pool().map(compile_tree, model_jobs, chunksize=4) if model_jobs else []
    for i, r in zip(model_idx, mres):
        if norm_err(r) != norm_err(res[i][0]):
            disagreements.append({'files': cases[i]['files'], 'model_text': model_jobs[model_idx.index(i)]['main.less'][:800],
                                  'model_css': r[1] if r[0] == 'ok' else r[1:3], 'real_css': res[i][0][1] if res[i][0][0] == 'ok' else res[i][0][1:3]})
    chk.cov['rule'] = ('%d programs of 3-10 units from a pool of %d interacting units (variables, mixins with and without guards, media, keyframes, '
                       'nested rules, interpolation) cut into random trees of up to 4 levels over the directories %s; import written with or '
                       'without extension, 5 quote/url forms, sometimes twice; + non-LESS imports (%d forms), block-level imports, missing files; '
                       'distinct by file tree; non-trivial = more than one file' % (n, len(POOL), DIRS, len(FOREIGN)))
    chk.cov['distribution'] = dist
    chk.cov['disagreements_checked'] = len(model_jobs)
    chk.cov['disagreements_found'] = len(disagreements)
    chk.cov['exhaustive'] = False
    for k in (0, 1, 2):
        chk.sample({'files': cases[k]['files'], 'split': list(res[k][0][:2]), 'pasted_equal': norm_err(res[k][0]) == norm_err(res[k][1])})
    if os.environ.get('VERIF_DEV_SKIP_LEAN') == '1':
        print('DEV disagreements', len(disagreements), json.dumps(disagreements[:3])[:3000])
    replay_known(chk)
    C.tie_verdict(chk, build, missing_thms, disagreements, 'Lessm.Imp.load vs lesscpy p_statement_import',
                  'all generated file trees were compiled by the real code and compared with the pasted text: no difference')
    return chk.finish()


def replay_known(chk):
    for f in C.known_findings(PROP):
        files = f['files']
        split = compile_tree(files)
        pasted = compile_tree({'main.less': f['pasted']})
        if norm_err(split) != norm_err(pasted):
            chk.known('%s: %s (split gives %r, pasted gives %r)' % (f['id'], f['what'], split[1:3] if split[0] != 'ok' else split[1], pasted[1] if pasted[0] == 'ok' else pasted[1:3]))
        else:
            chk.cov.setdefault('known_findings_no_longer_failing', []).append(f['id'])


def replay(path):
    d = json.load(open(path))
    if d.get('kind') != 'import':
        print('replay: nothing executable in', path)
        return 2
    split = compile_tree(d['files'])
    pasted = compile_tree({'main.less': d['pasted']})
    print('files  :', json.dumps(d['files'], indent=1))
    print('split  :', split[:3])
    print('pasted :', pasted[:3])
    if norm_err(split) != norm_err(pasted) or 'missing' in d.get('problem', '') and split[0] == 'ok':
        print('VIOLATION property=%s replay=%s' % (PROP, path))
        return 1
    print('replay: property holds on this input now')
    return 0
