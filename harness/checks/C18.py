"""
C18  Strings are preserved verbatim; @{var} interpolation substitutes values.

Proof side : lean/Lessm/Props/C18.lean (scan theorems: any body is one token and scanning resumes after the closing
             quote; parts are read back; verbatim evaluation; substitution; destring), plus selector interpolation in
             lean/Lessm/Props/C03.lean (C03 covers resolveSel).
Tie        : Lessm.Str.scan / evalString against the real compiler: bodies over all printable ASCII except the
             delimiter, backslash and '@' (hostile bodies with ; { } /* // > + ~ , : and repeated spaces first), in
             every value position (alone, before / after other components, in comma lists, in url(), as function
             argument), single- and double-quoted; strings and selectors with 1-3 interpolations of identifier-,
             number- and string-valued variables, each variable also used plainly before and after.
Observation: the string token byte-exact; the surrounding declarations intact.
"""
import json
import random
import re

import common as C
import canon

PROP = 'C18'
HOSTILE = [',', ', ', 'a;b', 'x}y', '{', '}', 'a{b}c', '/* c */', '// d', 'a  b   c', ' lead', 'trail ', '> + ~', 'a,b , c', 'k: v; m: n', '.cls #id', ':hover', '!important',
           '(', ')', 'url(x)', '100%', '#fff', '1 + 2', '-', '*/', '/*', ';}', '}}{{', 'a:b;c{d}e/*f*/g//h', '', ' ', '&', '& > &', '~"x"'.replace('"', ''), 'x=y', '[a]', "it's", 'say "hi"']
NAMES = ['v', 'w1', 'zz']
VALS = [('k', 'k'), ('foo-bar', 'foo-bar'), ('12', '12'), ('"q r"', 'q r'), ("'s'", 's'), ('3px', '3px')]
PRINTABLE = [chr(c) for c in range(32, 127) if chr(c) not in '\\@']


def rand_body(rng, q):
    n = rng.randrange(0, 25)
    return ''.join(rng.choice([c for c in PRINTABLE if c != q]) for _ in range(n))


def ctx_render(i, lit, kind):
    if kind == 0:
        return '.c%d{content:%s}' % (i, lit), lambda v: v
    if kind == 1:
        return '.c%d{content:solid %s 1px}' % (i, lit), lambda v: v
    if kind == 2:
        return '.c%d{content:%s, serif}' % (i, lit), lambda v: v
    if kind == 3:
        return '.c%d{content:url(%s)}' % (i, lit), lambda v: v
    if kind == 4:
        return '.c%d{content:foo(%s, 2)}' % (i, lit), lambda v: v
    return '@s%d:%s;.c%d{content:@s%d}' % (i, lit, i, i), lambda v: v


def strings_in(value):
    """string tokens of a value text, in order"""
    out, i = [], 0
    while i < len(value):
        if value[i] in '"\'':
            j = canon._scan_string(value, i)
            out.append(value[i:j])
            i = j
        else:
            i += 1
    return out


def run(tier):
    chk = C.Check(PROP, tier, 'proof')
    rng = random.Random(C.seed() * 179424673 + 18)
    build = C.lean_build(PROP)
    import os
    audit = open(os.path.join(C.LEAN, 'Lessm', 'Audit', 'C18.lean')).read()
    theorems = ['Lessm.Str.' + t for t in re.findall(r'#print axioms (\S+)', audit)]
    missing = chk.set_proof(build, theorems, 'cd lean && lake build Lessm.Props.C18 Lessm.Audit.C18 && lake env lean Lessm/Audit/C18.lean')
    chk.cov['trusted_base'] = C.TRUSTED_BASE
    chk.cov['rule'] = ('plain strings: %d hostile bodies + random printable-ASCII bodies x {double, single quote} x 6 value positions; '
                       'interpolated strings: 1-3 interpolations between hostile/random text, variables with identifier, number and quoted '
                       'values, each variable also used plainly before and after the string. distinct by source; non-trivial = body with a '
                       'structural character (; { } / , > + ~ :) or an interpolation' % len(HOSTILE))
    # ---- plain strings
    cases = []
    bodies = list(HOSTILE) + [rand_body(rng, '"') for _ in range(300 if tier == 'quick' else 6000)]
    for b in bodies:
        for q in '"\'':
            if q in b:
                continue
            for kind in (range(6) if (tier == 'thorough' or b in HOSTILE) else [rng.randrange(6)]):
                cases.append((q + b + q, kind, b))
    srcs = []
    for i, (lit, kind, _b) in enumerate(cases):
        srcs.append(ctx_render(i, lit, kind)[0])
    try:
        model = [json.loads(x) for x in C.Driver().run([('c18.scan', json.dumps({'q': lit[0], 'text': lit[1:] + '; tail', 'env': []})) for lit, _k, _b in cases])]
    except Exception as e:
        model = [None] * len(cases)
        build.ok = False
        build.log += '\nDRIVER: %r' % e
    # batches: strings may contain braces, so every case is its own rule and the batch is split on a marker rule
    CH = 200
    jobs = []
    for s in range(0, len(srcs), CH):
        jobs.append(('\n'.join(srcs[s:s + CH]), dict(minify=((s // CH) % 2 == 0))))
    res = C.compile_many(jobs)
    disagreements = []
    idx = 0
    for bi, r in enumerate(res):
        part = cases[bi * CH:(bi + 1) * CH]
        if r[0] != 'ok':
            # find the culprit one by one
            single = C.compile_many([(srcs[bi * CH + j], dict(minify=(bi % 2 == 0))) for j in range(len(part))])
        else:
            single = None
        nodes = canon.parse_css(r[1]) if r[0] == 'ok' else None
        for j, (lit, kind, b) in enumerate(part):
            i = bi * CH + j
            nontriv = any(ch in b for ch in ';{}/,>+~:')
            chk.count(srcs[i], nontrivial=nontriv)
            if single is not None:
                rr = single[j]
                if rr[0] != 'ok':
                    chk.violation({'kind': 'string-error', 'source': srcs[i], 'expected': lit, 'actual': list(rr[:3])})
                    continue
                nd = canon.parse_css(rr[1])
                node = nd[0] if nd else None
            else:
                node = nodes[j] if j < len(nodes) else None
            got = None
            if node and node[0] == 'rule' and node[1] == ['.c%d' % i] and len(node[2]) == 1:
                strs = strings_in(node[2][0][1])
                got = strs[0] if len(strs) == 1 else strs
            if got != lit:
                chk.violation({'kind': 'string', 'source': srcs[i], 'expected': lit, 'actual': got, 'node': node})
                if len(chk.violations) > 6:
                    break
                continue
            m = model[i]
            if m is not None and not (m.get('eval') == lit and m.get('rest') == '; tail'):
                disagreements.append((srcs[i], m, got))
        if len(chk.violations) > 6:
            break
    chk.sample({'source': srcs[3], 'model': model[3]})
    # ---- interpolated strings
    icases = []
    nint = 300 if tier == 'quick' else 6000
    for k in range(nint):
        q = rng.choice('"\'')
        nparts = rng.randrange(1, 4)
        names = [rng.choice(NAMES) for _ in range(nparts)]
        vals = {n: rng.choice(VALS) for n in set(names)}
        text = ''
        expect = ''
        for n in names:
            t = rng.choice(HOSTILE + [rand_body(rng, q)])
            if q in t or '@' in t:
                t = 'x '
            text += t + '@{%s}' % n
            expect += t + vals[n][1]
        t = rng.choice(HOSTILE + [''])
        if q in t:
            t = ''
        text += t
        expect += t
        # a value with the other kind of quote inside the body would need escaping: keep it out
        if any(q in vals[n][1] for n in vals):
            continue
        icases.append((q, text, expect, vals))
    isrcs = []
    for i, (q, text, expect, vals) in enumerate(icases):
        defs = ''.join('@%s:%s;' % (n, v[0]) for n, v in sorted(vals.items()))
        uses_before = ''.join('b%d:@%s;' % (k, n) for k, n in enumerate(sorted(vals)))
        uses_after = ''.join('a%d:@%s;' % (k, n) for k, n in enumerate(sorted(vals)))
        isrcs.append('%s.i%d{%scontent:%s%s%s;%s}' % (defs, i, uses_before.replace('b', 'margin-', 1) if False else uses_before, q, text, q, uses_after))
    # property names b0/a0 are not valid identifiers for lesscpy's lexer? use real ones
    isrcs = [re.sub(r'\bb(\d):', lambda m: ['top', 'left', 'right'][int(m.group(1))] + ':', s) for s in isrcs]
    isrcs = [re.sub(r'\ba(\d):', lambda m: ['width', 'height', 'bottom'][int(m.group(1))] + ':', s) for s in isrcs]
    ires = C.compile_many([(s, dict(minify=(k % 2 == 0))) for k, s in enumerate(isrcs)])
    try:
        imodel = [json.loads(x) for x in C.Driver().run([('c18.scan', json.dumps({'q': q, 'text': text + q + ';x', 'env': [[n, v[0]] for n, v in vals.items()]})) for q, text, _e, vals in icases])]
    except Exception as e:
        imodel = [None] * len(icases)
        build.ok = False
        build.log += '\nDRIVER: %r' % e
    for i, ((q, text, expect, vals), src, r) in enumerate(zip(icases, isrcs, ires)):
        chk.count(src, nontrivial=True)
        want = q + expect + q
        if r[0] != 'ok':
            chk.violation({'kind': 'interp-error', 'source': src, 'expected': want, 'actual': list(r[:3])})
            if len(chk.violations) > 6:
                break
            continue
        nd = canon.parse_css(r[1])
        ok = False
        detail = None
        if len(nd) == 1 and nd[0][0] == 'rule':
            decls = nd[0][2]
            cont = [v for p, v, _ in decls if p == 'content']
            others = [(p, v) for p, v, _ in decls if p != 'content']
            exp_others = []
            for k, n in enumerate(sorted(vals)):
                exp_others.append((['top', 'left', 'right'][k], canon.norm_value(vals[n][0])))
            for k, n in enumerate(sorted(vals)):
                exp_others.append((['width', 'height', 'bottom'][k], canon.norm_value(vals[n][0])))
            ok = cont == [want] and others == exp_others
            detail = {'content': cont, 'others': others, 'expected_others': exp_others}
        if not ok:
            chk.violation({'kind': 'interp', 'source': src, 'expected': want, 'actual': r[1], 'detail': detail})
            if len(chk.violations) > 6:
                break
            continue
        m = imodel[i]
        if m is not None and m.get('eval') != want:
            disagreements.append((src, m, r[1]))
    if isrcs:
        chk.sample({'source': isrcs[0], 'real': ires[0][1] if ires[0][0] == 'ok' else list(ires[0][:3]), 'model': imodel[0]})
    # ---- an interpolated string prints exactly like the plain string with the substituted text: also when the other kind of quote stands
    # ---- alone between interpolations, with commas inside and outside the string, in every output mode
    qcases = []
    for q, o in (('"', "'"), ("'", '"')):
        for tmpl in ('%(q)s%(o)s@{a},@{b}%(o)s%(q)s', '%(q)s@{a}%(o)s@{b}%(q)s, "x", y', '%(q)s%(o)s@{a}%(o)s,%(o)s@{b}%(o)s%(q)s, z', '%(q)s@{a}%(o)s%(q)s, w, v',
                     '%(q)s%(o)s,@{a}%(q)s', '%(q)s@{a},@{b}%(o)s@{a}%(q)s, k', '%(q)s%(o)s@{a}%(o)s@{b}%(o)s%(q)s %(q)sp,q%(q)s, r', '%(q)sa,b%(o)s@{a}%(o)sc,d%(q)s, e,f'):
            lit = tmpl % {'q': q, 'o': o}
            if q == "'":
                lit = lit.replace('"x"', "'x'")
            plain = lit.replace('@{a}', 'tom').replace('@{b}', 'ann')
            for prop in ('quotes', 'font-family', 'content'):
                for opts in (dict(minify=False), dict(minify=True), dict(minify=False, tabs=True)):
                    qcases.append(('@a: tom;\n@b: ann;\n.i{%s: %s}' % (prop, lit), '.i{%s: %s}' % (prop, plain), opts))
    qres = C.compile_many([(a_, o_) for a_, _b, o_ in qcases] + [(b_, o_) for _a, b_, o_ in qcases])
    for k, (a_, b_, o_) in enumerate(qcases):
        ra, rb = qres[k], qres[len(qcases) + k]
        chk.count(('quote-mix', a_, json.dumps(o_, sort_keys=True)), nontrivial=True)
        if rb[0] != 'ok':
            continue
        if ra[0] != 'ok' or ra[1] != rb[1]:
            chk.violation({'kind': 'interp-vs-plain', 'source': a_, 'options': o_, 'expected': rb[1], 'actual': ra[1] if ra[0] == 'ok' else list(ra[:3]),
                           'plain_source': b_, 'problem': 'an interpolated string must print like the plain string with the substituted text'})
            break
    # ---- selector interpolation (model: Lessm.Vars.resolveSel via c03.run)
    scases = []
    for k in range(120 if tier == 'quick' else 2000):
        n1, n2 = rng.choice(NAMES), rng.choice(NAMES)
        v1, v2 = rng.choice(['k', 'm2', '7', 'q-r']), rng.choice(['j', '9', 'x_y'])
        form = rng.randrange(5)
        if form == 0:
            sel, exp = '.s-@{%s}' % n1, '.s-%s' % v1
        elif form == 1:
            sel, exp = '.@{%s}-a' % n1, '.%s-a' % v1
        elif form == 2:
            sel, exp = '.s-@{%s}-@{%s}' % (n1, n2), '.s-%s-%s' % (v1, v2 if n2 != n1 else v1)
        elif form == 3:
            sel, exp = '.a .s-@{%s} .b' % n1, '.a .s-%s .b' % v1
        else:
            sel, exp = '.s-@{%s}:hover' % n1, '.s-%s:hover' % v1
        defs = '@%s:%s;' % (n1, v1) + ('@%s:%s;' % (n2, v2) if n2 != n1 else '')
        scases.append(('%s%s{top:@%s;color:red}.t%d{width:@%s}' % (defs, sel, n1, k, n1), exp, v1, k))
    sres = C.compile_many([(s, dict(minify=True)) for s, _e, _v, _k in scases])
    for (src, exp, v1, k), r in zip(scases, sres):
        chk.count(src, nontrivial=True)
        want = '%s{top:%s;color:red;}\n.t%d{width:%s;}' % (exp, v1, k, v1)
        if not (r[0] == 'ok' and r[1] == want):
            chk.violation({'kind': 'selector-interp', 'source': src, 'expected': want, 'actual': r[1] if r[0] == 'ok' else list(r[:3])})
            break
    # ---- the same variable keeps its value for every other use: shadowing in nested / sibling blocks
    shcases = []
    for k in range(80 if tier == 'quick' else 1500):
        n = rng.choice(NAMES)
        outer, inner = rng.sample(['foo', 'bar', 'k7', 'zz', '12'], 2)
        form = rng.randrange(4)
        if form == 0:
            src = '@%s:%s;.s1{@%s:%s;content:"@{%s}";}.s2{content:"@{%s}";color:@%s;}' % (n, outer, n, inner, n, n, n)
            want = '.s1{content:"%s";}\n.s2{content:"%s";color:%s;}' % (inner, outer, outer)
        elif form == 1:
            src = '@%s:%s;.o{.i{@%s:%s;content:"a @{%s} b";}content:"a @{%s} b";}' % (n, outer, n, inner, n, n)
            want = '.o{content:"a %s b";}\n.o .i{content:"a %s b";}' % (outer, inner)
        elif form == 2:
            src = '@%s:%s;.o{.i{@%s:%s;.p-@{%s}{top:0}}.q-@{%s}{top:1px}}' % (n, outer, n, inner, n, n)
            want = '.o .i .p-%s{top:0;}\n.o .q-%s{top:1px;}' % (inner, outer)
        else:
            src = '@%s:%s;.a{content:"@{%s}";}.b{@%s:%s;content:"@{%s}";}.c{content:"@{%s}";}' % (n, outer, n, n, inner, n, n)
            want = '.a{content:"%s";}\n.b{content:"%s";}\n.c{content:"%s";}' % (outer, inner, outer)
        shcases.append((src, want))
    shres = C.compile_many([(s_, dict(minify=True)) for s_, _w in shcases])
    for (src, want), r in zip(shcases, shres):
        chk.count(src, nontrivial=True)
        if not (r[0] == 'ok' and r[1] == want):
            chk.violation({'kind': 'interp-shadow', 'source': src, 'expected': want, 'actual': r[1] if r[0] == 'ok' else list(r[:3])})
            break
    C.replay_known(chk, PROP)
    chk.cov['disagreements_checked'] = len(disagreements)
    chk.cov['exhaustive'] = False
    chk.cov['catalogue'] = {'plain_cases': len(cases), 'interpolated_cases': len(icases), 'selector_cases': len(scases), 'hostile_bodies': len(HOSTILE)}
    C.tie_verdict(chk, build, missing, disagreements, 'Lessm.Str.scan/evalString vs lesscpy',
                  'hostile and random string bodies were run against the real code: no failing input')
    return chk.finish()


def replay(path):
    d = json.load(open(path))
    src = d.get('source')
    if not src:
        print('replay: nothing executable in', path)
        return 2
    r = C.real_compile(src, minify=True)
    print('source  :', src)
    print('actual  :', r)
    print('expected:', d.get('expected'))
    bad = not (r[0] == 'ok' and str(d.get('expected')) in r[1])
    if bad:
        print('VIOLATION property=%s replay=%s' % (PROP, path))
        return 1
    print('replay: property holds on this input now')
    return 0
