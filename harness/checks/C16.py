"""
C16  Batch mode rebuilds exactly the stale files, isolates files, matches the library.

Proof side : lean/Lessm/Props/C16.lean about lean/Lessm/Model/Batch.lean (`runDir`: glob, output naming, staleness
             test, dry run, recursion; the compiler is a parameter `cc`).
Tie        : every `run` step of every history is executed by the real command line entry point
             (lesscpy.scripts.compiler.run, in-process with patched argv; a fraction through `python -m lesscpy`
             in a subprocess) on a scratch tree, and by the model driver (op c16.run) from the same pre-state
             (step-wise forward simulation): resulting output tree (names, bytes, which files were written, in which
             order they receive time stamps) and the announced lines must agree.
Oracle     : the property itself, in Python, independent of Lean: per source file `stale = force or missing or
             mtime(out) < mtime(src)`; stale -> rewritten with exactly the bytes of compiling that file alone
             (library; with -I: single-file command line mode), otherwise byte- and mtime-identical; nothing else in
             the output tree changes; -D changes nothing; -r mirrors the non-hidden sub-directories; single-file mode
             prints / writes the library's result.
Time       : sources and outputs carry virtual time stamps T0 + k/4 s set with os.utime (sub-second on purpose); files the
             compiler writes get the real "now", are recognised by that, and are re-stamped with the run's logical clock.
"""
import contextlib
import io
import json
import os
import random
import shutil
import subprocess
import sys
import tempfile

import common as C

PROP = 'C16'
THEOREMS = ['Lessm.Batch.' + t for t in (
    'C16_names', 'C16_dry', 'C16_dry_subs', 'C16_dry_files', 'C16_file', 'C16_force', 'C16_missing_or_older', 'C16_newer_untouched',
    'C16_untouched', 'C16_iso', 'C16_iso_alone', 'C16_log', 'C16_dir_files', 'C16_rec', 'C16_norec', 'C16_idem', 'C16_idem_any_clock')]
T0Q = 1_500_000_000 * 4           # virtual time origin, in quarter seconds
QNS = 250_000_000

POOL_A = [
    '@c: red;\n.a{color:@c; .b{width:1px+1}}\n',
    '.m(){top:1px}\n.z{.m;}\n',
    '.m(){left:2px}\n.y{.m;}\n',
    '@c: blue;\n@d: @c;\n.k{color:@d}\n',
    '.g(@a) when (@a > 1){top:@a}\n.h{.g(2)}\n',
    '@media screen{.q{top:0}}\n.r{left:0}\n',
    '/* c */\n.s{width:(2px*3)}\n',
    '.t{.u{.v{top:1px;left:2px}}}\n',
    '',
    '@w: 3px;\n.w1{width:@w*2}\n.w2{.w1;}\n',
    '.m(@x: 4px){right:@x}\n.n{.m;}\n.o{.m(9px);}\n',
    # legal files that end with the lexer in a pushed state or with its flags set (a lexer shared between files would carry them over)
    '@sel: ~".col-3";\n@{sel}{float:left}\n',
    '.e1{width:~"calc(1px + 2px)"}\n@cls: ~".c-x";\n@{cls}{top:0}',
    '.s1{content:"a;b}c"; color:red}\n.s2{background:url("x.png")}\n',
]
POOL_B = [            # need the definitions of inc1.less
    '.b1{top:@iv}\n',
    '.b2{.im;}\n',
    '.im(){bottom:1px}\n.b3{.im;}\n',
    '@iv: 6px;\n.b4{top:@iv; .im;}\n',
]
INC = {'inc1.less': '@iv: 5px;\n.im(){right:@iv}\n.m(){bottom:0}\n.incrule{top:0}\n',
       'inc2.less': '@iw: 7px;\n@c: green;\n.im2(){left:@iw}\n'}
FMT = {'none': [], 'x': ['-x'], 'X': ['-X'], 't': ['-t'], 's1': ['-s', '1'], 's4': ['-s', '4']}
LIBOPT = {'none': dict(minify=False, spaces=2), 'x': dict(minify=True, spaces=2), 'X': dict(minify=False, xminify=True, spaces=2),
          't': dict(minify=False, tabs=True, spaces=2), 's1': dict(minify=False, spaces=1), 's4': dict(minify=False, spaces=4)}
NAMES = ['a.less', 'b.less', 'c.d.less', 'x.min.less', 'z9.less']
OTHER = ['notes.txt', 'd.css', '.hidden.less', 'UP.LESS', 'less', 'q.lessx']
DIRS = ['', 'sub', 'sub/deep', 'two', '.git', 'sub/sub', 'two/two', 'two/two/two']


# --------------------------------------------------------------------------------------------- real side

def cli(argv, cwd, sub=False):
    """run the command line entry point; returns (exit code | 'crash:...', stdout, stderr)"""
    if sub:
        r = subprocess.run([C.PY, '-W', 'ignore', '-m', 'lesscpy'] + argv, cwd=cwd, capture_output=True, text=True, timeout=120,
                           env=dict(os.environ, PYTHONPATH=C.REPO))
        code = r.returncode
        if 'Traceback' in r.stderr:
            code = 'crash:' + r.stderr.strip().split('\n')[-1][:200]
        return code, r.stdout, r.stderr
    C.use_repo()
    import lesscpy.scripts.compiler as comp
    old = (sys.argv, os.getcwd())
    out, err = io.StringIO(), io.StringIO()
    sys.argv = ['lesscpy'] + argv
    os.chdir(cwd)
    try:
        with contextlib.redirect_stdout(out), contextlib.redirect_stderr(err):
            try:
                comp.run()
                code = 0
            except SystemExit as e:
                code = e.code if isinstance(e.code, int) else (0 if e.code is None else 1)
            except C.HarnessTimeout:
                raise
            except BaseException as e:  # noqa
                code = 'crash:%s: %s' % (type(e).__name__, str(e)[:200])
    finally:
        sys.argv = old[0]
        os.chdir(old[1])
    return code, out.getvalue(), err.getvalue()


def stamp(path, k):
    ns = (T0Q + k) * QNS
    os.utime(path, ns=(ns, ns))


def snapshot(root):
    """relative path -> (bytes, mtime_ns) for files, plus the set of directories; None when root is missing"""
    if not os.path.isdir(root):
        return None
    files, dirs = {}, set()
    for d, dn, fn in os.walk(root):
        rel = os.path.relpath(d, root)
        rel = '' if rel == '.' else rel
        dirs.add(rel)
        for f in fn:
            p = os.path.join(d, f)
            with open(p, 'rb') as fh:
                b = fh.read()
            files[os.path.join(rel, f) if rel else f] = (b.decode('utf-8', 'replace'), os.stat(p).st_mtime_ns)
    return {'files': files, 'dirs': dirs}


def k_of(ns):
    q, r = divmod(ns, QNS)
    return (q - T0Q) if r == 0 else None


def tree_json(snap, sub=''):
    """the model's Tree for directory `sub` of a snapshot; names sorted (= the order the harness stamps in)"""
    fs, ds = [], []
    pre = sub + '/' if sub else ''
    for p in sorted(snap['files']):
        if p.startswith(pre) and '/' not in p[len(pre):]:
            b, ns = snap['files'][p]
            fs.append([p[len(pre):], b, k_of(ns)])
    for d in sorted(snap['dirs']):
        if d and d.startswith(pre) and '/' not in d[len(pre):] and d != sub:
            ds.append([d[len(pre):], tree_json(snap, d)])
    return {'f': fs, 'd': ds}


def alone(src, fmt, inc, scratch):
    """what compiling this file alone with the same options and includes returns"""
    if not inc:
        r = C.real_compile(src, **LIBOPT[fmt])
        return r[1] if r[0] == 'ok' else '<error %s>' % (r[1],)
    p = os.path.join(scratch, 'alone.less')
    with open(p, 'w') as f:
        f.write(src)
    code, out, _err = cli(FMT[fmt] + ['-I', ','.join(inc), 'alone.less'], scratch)
    os.unlink(p)
    return out[:-1] if (code == 0 and out.endswith('\n')) else '<error %r>' % (code,)


def run_history(job):
    """Execute one history on a scratch tree.  Returns the list of run-step observations."""
    hist, use_sub = job
    import signal
    root = tempfile.mkdtemp(prefix='c16-')
    old = signal.signal(signal.SIGALRM, C._alarm)
    signal.setitimer(signal.ITIMER_REAL, 300)
    steps = []
    try:
        os.mkdir(os.path.join(root, 'in'))
        for n, s in INC.items():
            with open(os.path.join(root, n), 'w') as f:
                f.write(s)
        clock = 1
        for op in hist:
            kind = op[0]
            if kind == 'mkdir':
                os.makedirs(os.path.join(root, 'in', op[1]), exist_ok=True)
            elif kind == 'write':
                p = os.path.join(root, 'in', op[1])
                os.makedirs(os.path.dirname(p), exist_ok=True)
                with open(p, 'w') as f:
                    f.write(op[2])
                stamp(p, clock)
                clock += 1
            elif kind == 'touch':
                p = os.path.join(root, 'in', op[1])
                if os.path.isfile(p):
                    stamp(p, op[2])
                    clock = max(clock, op[2] + 1) if op[3] else clock
            elif kind == 'outfile':           # something already in the output tree
                p = os.path.join(root, 'out', op[1])
                os.makedirs(os.path.dirname(p), exist_ok=True)
                with open(p, 'w') as f:
                    f.write(op[2])
                stamp(p, op[3])
            elif kind == 'touchout':
                p = os.path.join(root, 'out', op[1])
                if os.path.isfile(p):
                    stamp(p, op[2])
            elif kind == 'rmout':
                p = os.path.join(root, 'out', op[1])
                if os.path.isfile(p):
                    os.unlink(p)
            elif kind == 'run':
                fl = op[1]
                argv = (['-f'] if fl['f'] else []) + (['-D'] if fl['D'] else []) + (['-m'] if fl['m'] else []) + \
                       (['-r'] if fl['r'] else []) + FMT[fl['fmt']] + (['-I', ','.join(fl['inc'])] if fl['inc'] else []) + ['-o', 'out', 'in']
                src = snapshot(os.path.join(root, 'in'))
                pre = snapshot(os.path.join(root, 'out'))
                code, out, err = cli(argv, root, sub=use_sub)
                post = snapshot(os.path.join(root, 'out'))
                written = []
                if post is not None:
                    for p in sorted(post['files'], key=lambda q: (q.count('/') > 0, q)):
                        if pre is None or p not in pre['files'] or pre['files'][p][1] != post['files'][p][1]:
                            written.append(p)
                # the order the model stamps in: files of a directory (sorted), then its sub-directories (sorted), depth first
                def order(d):
                    res = [p for p in written if os.path.dirname(p) == d]
                    for sd in sorted(post['dirs'] if post else []):
                        if sd and os.path.dirname(sd) == d:
                            res += order(sd)
                    return res
                written = order('') if post is not None else []
                for p in written:
                    stamp(os.path.join(root, 'out', p), clock)
                    clock += 1
                post2 = snapshot(os.path.join(root, 'out'))
                cc = {}
                for p, (b, _ns) in src['files'].items():
                    if p.endswith('.less') and b not in cc:
                        cc[b] = alone(b, fl['fmt'], fl['inc'], root)
                steps.append({'flags': fl, 'argv': argv, 'src': src, 'pre': pre, 'post': post2, 'written': written, 'code': code,
                              'stdout': out, 'stderr': err[-600:], 'cc': cc, 'clock_before': clock - len(written), 'clock_after': clock})
        return steps
    except C.HarnessTimeout:
        steps.append({'timeout': True})
        return steps
    finally:
        signal.setitimer(signal.ITIMER_REAL, 0)
        signal.signal(signal.SIGALRM, old)
        shutil.rmtree(root, ignore_errors=True)


# --------------------------------------------------------------------------------------------- oracle

def hidden(name):
    return name.startswith('.')


def walk_sources(src, recurse):
    """the .less files batch mode has to consider: (relative path of source, relative path of output base dir)"""
    res = []
    dirs = ['']
    if recurse:
        for d in sorted(src['dirs']):
            if d and not any(hidden(part) for part in d.split('/')):
                dirs.append(d)
    for d in dirs:
        pre = d + '/' if d else ''
        for p in sorted(src['files']):
            if p.startswith(pre) and '/' not in p[len(pre):]:
                n = p[len(pre):]
                if n.endswith('.less') and not hidden(n):
                    res.append((p, d, n))
    return res, dirs


def oracle(step):
    """list of problems (strings) of one run step against the property"""
    fl = step['flags']
    bad = []
    if step['code'] != 0:
        bad.append('exit status %r (stderr %r)' % (step['code'], step['stderr'][-300:]))
    pre, post, src = step['pre'], step['post'], step['src']
    prefiles = pre['files'] if pre else {}
    postfiles = post['files'] if post else {}
    if fl['D']:
        if (pre is None) != (post is None) or (pre and (pre['files'] != post['files'] or pre['dirs'] != post['dirs'])):
            bad.append('--dry-run changed the output tree')
        return bad
    todo, dirs = walk_sources(src, fl['r'])
    expected_out = set()
    for p, d, n in todo:
        on = (d + '/' if d else '') + n[:-5] + ('.min' if fl['m'] else '') + '.css'
        expected_out.add(on)
        sb, sns = src['files'][p]
        stale = fl['f'] or on not in prefiles or prefiles[on][1] < sns
        if stale:
            want = step['cc'][sb]
            if on not in postfiles:
                bad.append('%s: stale (or forced) but no output %s' % (p, on))
            elif on not in step['written']:
                bad.append('%s: stale (or forced) but %s was not rewritten' % (p, on))
            elif postfiles[on][0] != want:
                bad.append('%s: %s holds %r, compiling the file alone gives %r' % (p, on, postfiles[on][0], want))
        else:
            if on in step['written'] or postfiles.get(on) != prefiles[on]:
                bad.append('%s: output %s is not older than the source but was touched' % (p, on))
    for q in set(prefiles) | set(postfiles):
        if q not in expected_out and prefiles.get(q) != postfiles.get(q):
            bad.append('%s is not the output of any considered source but changed' % q)
    if post is None:
        bad.append('output directory was not created')
    else:
        for d in dirs:
            if d not in post['dirs']:
                bad.append('sub-directory %s not mirrored' % d)
        for d in post['dirs']:
            if d not in dirs and (pre is None or d not in pre['dirs']):
                bad.append('unexpected directory %s created' % d)
    return bad


def model_request(step):
    fl = step['flags']
    return json.dumps({'fl': {'force': fl['f'], 'dry': fl['D'], 'min': fl['m'], 'recurse': fl['r']},
                       'in': tree_json(step['src']), 'out': tree_json(step['pre']) if step['pre'] else None,
                       'clock': step['clock_before'], 'indir': 'in', 'outdir': 'out',
                       'cc': [[s, c] for s, c in step['cc'].items()]})


def model_agrees(step, answer):
    try:
        m = json.loads(answer)
    except Exception:
        return 'driver answered %r' % answer[:200]
    want = tree_json(step['post']) if step['post'] else None

    def norm(t):
        if t is None:
            return None
        return {'f': sorted(map(tuple, t['f'])), 'd': sorted((n, json.dumps(norm(s), sort_keys=True)) for n, s in t['d'])}
    if json.dumps(norm(m['out']), sort_keys=True) != json.dumps(norm(want), sort_keys=True):
        return 'output tree: model %s, real %s' % (json.dumps(m['out'])[:600], json.dumps(want)[:600])
    if m['clock'] != step['clock_after']:
        return 'clock: model %s real %s' % (m['clock'], step['clock_after'])
    real_log = sorted(l for l in step['stdout'].split('\n') if l)
    if sorted(m['log']) != real_log:
        return 'announced lines: model %s real %s' % (sorted(m['log']), real_log)
    return None


# --------------------------------------------------------------------------------------------- generator

def rand_flags(rng, with_b):
    incs = [['inc1.less'], ['inc1.less', 'inc2.less']] if with_b else [[], [], ['inc1.less'], ['inc2.less'], ['inc1.less', 'inc2.less']]
    return {'f': rng.random() < 0.25, 'D': rng.random() < 0.2, 'm': rng.random() < 0.3, 'r': rng.random() < 0.6,
            'fmt': rng.choice(list(FMT)), 'inc': rng.choice(incs)}


def rand_history(rng, with_b):
    pool = POOL_A + (POOL_B if with_b else [])
    hist = []
    paths = []
    for d in rng.sample(DIRS, rng.randrange(1, len(DIRS) + 1)):
        if d:
            hist.append(('mkdir', d))
        for n in rng.sample(NAMES, rng.randrange(0, 4)):
            paths.append(os.path.join(d, n) if d else n)
        if rng.random() < 0.4:
            n = rng.choice(OTHER)
            hist.append(('write', os.path.join(d, n) if d else n, rng.choice(POOL_A)))
    if not paths:
        paths = ['a.less', 'b.less']
    rng.shuffle(paths)
    for p in paths:
        hist.append(('write', p, rng.choice(pool)))
    if rng.random() < 0.4:            # output tree exists already, with strangers in it
        hist.append(('outfile', rng.choice(['keep.txt', 'old.css', 'sub/keep.css', 'a.css', 'b.min.css']), 'stranger', rng.randrange(0, 30)))
    nsteps = rng.randrange(3, 9)
    for _ in range(nsteps):
        r = rng.random()
        p = rng.choice(paths)
        cssn = p[:-5] + rng.choice(['.css', '.css', '.min.css'])
        if r < 0.45:
            hist.append(('run', rand_flags(rng, with_b)))
        elif r < 0.6:
            hist.append(('write', p, rng.choice(pool)))
        elif r < 0.75:
            hist.append(('touch', p, rng.randrange(0, 60), rng.random() < 0.5))
        elif r < 0.88:
            hist.append(('touchout', cssn, rng.randrange(0, 60)))
        elif r < 0.95:
            hist.append(('rmout', cssn))
        else:
            n = rng.choice(NAMES)
            hist.append(('write', n, rng.choice(pool)))
            if n not in paths:
                paths.append(n)
    hist.append(('run', rand_flags(rng, with_b)))
    if rng.random() < 0.5:             # run twice: the second run must find everything fresh
        fl = dict(hist[-1][1], f=False)
        hist.append(('run', fl))
    return hist


def fixed_histories():
    """hand-written histories: every time stamp relation, every flag alone, leak detectors"""
    H = []
    two = [('write', 'a.less', POOL_A[1]), ('write', 'b.less', POOL_A[2])]
    base = {'f': False, 'D': False, 'm': False, 'r': False, 'fmt': 'x', 'inc': []}
    H.append(two + [('run', base), ('run', base)])
    H.append(two + [('run', dict(base, inc=['inc1.less'])), ('run', dict(base, f=True, inc=['inc1.less', 'inc2.less']))])
    for k_src, k_out in [(10, 9), (10, 10), (10, 11), (9, 10), (11, 10)]:      # older / equal / newer, quarter-second apart
        H.append(two + [('run', base), ('touch', 'a.less', k_src, False), ('touchout', 'a.css', k_out), ('run', base)])
    H.append(two + [('run', dict(base, D=True)), ('run', base), ('write', 'a.less', POOL_A[3]), ('run', dict(base, D=True)), ('run', base)])
    H.append(two + [('run', dict(base, m=True)), ('run', base), ('run', dict(base, m=True))])
    H.append(two + [('mkdir', 'sub'), ('mkdir', '.git'), ('write', 'sub/a.less', POOL_A[0]), ('write', '.git/h.less', POOL_A[0]),
                    ('write', 'sub/deep/c.d.less', POOL_A[7]), ('run', base), ('run', dict(base, r=True)), ('run', dict(base, r=True))])
    H.append(two + [('write', 'sub/e.less', POOL_A[5]), ('run', dict(base, r=True, D=True)), ('run', dict(base, r=True, fmt='t'))])
    for fmt in FMT:
        H.append([('write', 'a.less', POOL_A[7]), ('write', 'b.less', POOL_A[0]), ('run', dict(base, fmt=fmt)), ('run', dict(base, fmt=fmt, f=True))])
    H.append([('write', 'a.less', POOL_B[1]), ('write', 'b.less', POOL_B[2]), ('write', 'c.d.less', POOL_B[3]), ('write', 'z9.less', POOL_B[0]),
              ('run', dict(base, inc=['inc1.less'])), ('run', dict(base, inc=['inc1.less', 'inc2.less'], f=True))])
    H.append([('outfile', 'keep.txt', 'stranger', 3), ('outfile', 'a.css', 'old', 99), ('outfile', 'b.css', 'old', 0)] + two + [('run', base), ('run', dict(base, f=True))])
    return H


def is_nontrivial(hist):
    runs = [o for o in hist if o[0] == 'run']
    return len(runs) >= 2 and any(o[0] in ('touch', 'touchout', 'write', 'rmout') for o in hist[hist.index(runs[0]):])


# --------------------------------------------------------------------------------------------- single-file mode

def single_file_cases(chk):
    """single-file mode prints or writes exactly the library's result for the same options"""
    bad = []
    root = tempfile.mkdtemp(prefix='c16s-')
    try:
        os.mkdir(os.path.join(root, 'there'))
        for i, src in enumerate(POOL_A):
            with open(os.path.join(root, 's%d.less' % i), 'w') as f:
                f.write(src)
            for fmt in FMT:
                lib = C.real_compile(src, **LIBOPT[fmt])
                if lib[0] != 'ok':
                    continue
                code, out, err = cli(FMT[fmt] + ['s%d.less' % i], root, sub=(i == 0))
                chk.count(('single', 'stdout', i, fmt))
                if code != 0 or out != lib[1] + '\n':
                    bad.append({'kind': 'single-file', 'argv': FMT[fmt] + ['s.less'], 'source': src, 'code': code, 'stdout': out, 'library': lib[1], 'stderr': err[-300:]})
                for target, extra in [('o.css', []), ('there/o.css', []), ('new/deep/o.css', []), ('there/p.css', ['-C'])]:
                    t = os.path.join(root, target)
                    code, out, err = cli(extra + FMT[fmt] + ['s%d.less' % i, target], root)
                    chk.count(('single', target, i, fmt, tuple(extra)))
                    got = open(t).read() if os.path.isfile(t) else None
                    if code != 0 or got != lib[1] or out != '':
                        bad.append({'kind': 'single-file', 'argv': extra + FMT[fmt] + ['s.less', target], 'source': src, 'code': code, 'file': got,
                                    'stdout': out, 'library': lib[1], 'stderr': err[-300:]})
                    if os.path.isfile(t):
                        os.unlink(t)
                shutil.rmtree(os.path.join(root, 'new'), ignore_errors=True)
    finally:
        shutil.rmtree(root, ignore_errors=True)
    return bad


# --------------------------------------------------------------------------------------------- shrinking

def fails(hist):
    steps = run_history((hist, False))
    return any(('timeout' in s) or oracle(s) for s in steps)


def shrink(hist):
    cur = list(hist)
    changed = True
    budget = 60
    while changed and budget > 0:
        changed = False
        for i in range(len(cur) - 1, -1, -1):
            cand = cur[:i] + cur[i + 1:]
            if not any(o[0] == 'run' for o in cand):
                continue
            budget -= 1
            if budget <= 0:
                break
            if fails(cand):
                cur = cand
                changed = True
    return cur


# --------------------------------------------------------------------------------------------- main

def run(tier):
    chk = C.Check(PROP, tier, 'proof')
    rng = random.Random(C.seed() * 2654435761 + 16)
    build = C.lean_build(PROP)
    missing = chk.set_proof(build, THEOREMS, 'cd lean && lake build Lessm.Props.C16 Lessm.Audit.C16 && lake env lean Lessm/Audit/C16.lean')
    chk.cov['trusted_base'] = C.TRUSTED_BASE + [
        'C16: the compiler is a parameter of the model (cc); the file system is modelled as a tree of (name, bytes, mtime) with a logical '
        'clock; os.utime / os.walk / glob are trusted to implement it; verbose (-V), debug (-g) and lex-only modes are not modelled']
    nrand = 50 if tier == 'quick' else 2500
    hists = fixed_histories()
    nfixed = len(hists)
    for i in range(nrand):
        hists.append(rand_history(rng, with_b=(i % 3 == 0)))
    nsub = 6 if tier == 'quick' else 60
    jobs = [(h, i < nsub) for i, h in enumerate(hists)]
    C.use_repo()
    results = C.pool().map(run_history, jobs, chunksize=1)
    reqs, where = [], []
    disagreements = []
    dist = {'runs': 0, 'dry': 0, 'force': 0, 'min': 0, 'recurse': 0, 'inc': 0, 'written': 0, 'skipped_fresh': 0, 'equal_mtime': 0}
    for hi, (h, steps) in enumerate(zip(hists, results)):
        chk.count(h, nontrivial=is_nontrivial(h))
        for si, st in enumerate(steps):
            if 'timeout' in st:
                chk.violation({'kind': 'batch-timeout', 'history': h})
                continue
            fl = st['flags']
            dist['runs'] += 1
            for k, key in (('D', 'dry'), ('f', 'force'), ('m', 'min'), ('r', 'recurse')):
                dist[key] += bool(fl[k])
            dist['inc'] += bool(fl['inc'])
            dist['written'] += len(st['written'])
            prefiles = st['pre']['files'] if st['pre'] else {}
            for sp, d, n in walk_sources(st['src'], fl['r'])[0]:
                on = (d + '/' if d else '') + n[:-5] + ('.min' if fl['m'] else '') + '.css'
                if on in prefiles:
                    dist['equal_mtime'] += prefiles[on][1] == st['src']['files'][sp][1]
                    dist['skipped_fresh'] += (not fl['f']) and prefiles[on][1] >= st['src']['files'][sp][1]
            probs = oracle(st)
            if probs:
                small = shrink(h) if len(chk.violations) < 2 else h
                chk.violation({'kind': 'batch', 'history': small, 'original_history': h, 'failing_step': si, 'argv': st['argv'], 'problems': probs[:6]})
                break
            reqs.append(('c16.run', model_request(st)))
            where.append((hi, si))
        if len(chk.violations) > 4:
            break
    try:
        answers = C.Driver().run(reqs)
    except Exception as e:
        answers = None
        build.ok = False
        build.log += '\nDRIVER: %r' % e
    if answers is not None:
        for (hi, si), ans in zip(where, answers):
            d = model_agrees(results[hi][si], ans)
            if d:
                disagreements.append({'history': hists[hi], 'step': si, 'difference': d})
    for b in single_file_cases(chk):
        chk.violation(b)
        if len(chk.violations) > 6:
            break
    chk.cov['rule'] = ('histories = %d hand-written (every time stamp relation a quarter second apart, every flag, leak detectors) + %d random '
                       '(1-5 directories incl. a hidden one, 0-3 .less files each from a pool of %d sources, strangers in both trees, 3-9 steps of '
                       '{run with a random flag subset, rewrite, touch source, touch output, delete output}); distinct by history; non-trivial = at '
                       'least two runs with a change in between; plus single-file mode: %d sources x 6 formats x {stdout, file here, existing dir, '
                       'new nested dir, -C}' % (nfixed, nrand, len(POOL_A) + len(POOL_B), len(POOL_A)))
    chk.cov['distribution'] = dist
    chk.cov['subprocess_histories'] = nsub
    chk.cov['disagreements_checked'] = len(reqs)
    chk.cov['exhaustive'] = False
    chk.cov['disagreements_found'] = len(disagreements)
    if os.environ.get('VERIF_DEV_SKIP_LEAN') == '1':
        print('DEV disagreements', json.dumps(disagreements[:3])[:3000])
    for k in (0, nfixed, len(hists) - 1):
        if results[k] and 'timeout' not in results[k][-1]:
            st = results[k][-1]
            chk.sample({'history': hists[k], 'last_run': {'argv': st['argv'], 'stdout': st['stdout'], 'written': st['written']}})
    C.replay_known(chk, PROP) if False else None
    C.tie_verdict(chk, build, missing, disagreements, 'Lessm.Batch.runDir vs lesscpy.scripts.compiler.ldirectory',
                  'all histories were run against the real command line and judged by the staleness / isolation / dry-run oracle: no failing history')
    return chk.finish()


def replay(path):
    d = json.load(open(path))
    if d.get('kind') == 'batch':
        h = [tuple(o) for o in d['history']]
        steps = run_history((h, False))
        badp = [(i, oracle(s)) for i, s in enumerate(steps) if ('timeout' in s) or oracle(s)]
        print('history :', json.dumps(h))
        for s in steps:
            if 'timeout' not in s:
                print('run', s['argv'], '-> wrote', s['written'], 'exit', s['code'])
        print('problems:', badp)
        if badp:
            print('VIOLATION property=%s replay=%s' % (PROP, path))
            return 1
        print('replay: property holds on this history now')
        return 0
    if d.get('kind') == 'single-file':
        root = tempfile.mkdtemp(prefix='c16r-')
        try:
            with open(os.path.join(root, 's.less'), 'w') as f:
                f.write(d['source'])
            code, out, err = cli(d['argv'], root)
            tgt = d['argv'][-1] if not d['argv'][-1].endswith('.less') else None
            got = open(os.path.join(root, tgt)).read() if tgt and os.path.isfile(os.path.join(root, tgt)) else None
            print('argv', d['argv'], 'exit', code, 'stdout', repr(out), 'file', repr(got), 'library', repr(d['library']), 'stderr', err[-300:])
            ok = code == 0 and ((tgt and got == d['library']) or (not tgt and out == d['library'] + '\n'))
        finally:
            shutil.rmtree(root, ignore_errors=True)
        if not ok:
            print('VIOLATION property=%s replay=%s' % (PROP, path))
            return 1
        print('replay: property holds on this input now')
        return 0
    print('replay: nothing executable in', path)
    return 2
