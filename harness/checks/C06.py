"""
C06  A guarded mixin is applied exactly when its guard is true.

Proof side : lean/Lessm/Props/C06.lean (C06_cmp, C06_not, C06, C06_and, C06_or, C06_excl)
Tie        : Lessm.Guard.passes / firstMatch against the real compiler on the exhaustive catalogue
             5 operators x {plain, not} x all ordered pairs of a value set covering {negative, zero,
             positive} x {integer, decimal} x {<,=,>} x unit placements x operand shapes
             {param-literal, literal-param, param-param}; connective shapes {single, and2, and3,
             comma2, comma3, and-then-comma, comma-then-and, comma of and-chains} over all truth
             assignments; pairs / triples of mutually exclusive same-named mixins in every order.
Oracle     : truth-table semantics in Python with Fractions (independent of the Lean model).
"""
import itertools
import json
import random
import re
from fractions import Fraction

import common as C

PROP = 'C06'
THEOREMS = ['Lessm.Guard.C06_cmp', 'Lessm.Guard.C06_not', 'Lessm.Guard.C06', 'Lessm.Guard.C06_and',
            'Lessm.Guard.C06_or', 'Lessm.Guard.C06_excl']
OPS = ['>', '<', '=', '>=', '=<']
VALS = ['-2.5', '-1', '0', '0.5', '1', '1.0', '2', '2.5', '10']
PYOP = {'>': lambda a, b: a > b, '<': lambda a, b: a < b, '=': lambda a, b: a == b,
        '>=': lambda a, b: a >= b, '=<': lambda a, b: a <= b}


def fr(s):
    return Fraction(s)


def cond_truth(c):
    neg, a, op, b = c['neg'], fr(c['a']), c['op'], fr(c['b'])
    r = PYOP[op](a, b)
    return (not r) if neg else r


def guard_truth(g):
    return any(all(cond_truth(c) for c in ch) for ch in g)


def cond_text(c):
    """LESS text of a condition; operands are written as parameter or literal according to shape."""
    def operand(which):
        kind = c['shape'][which]
        if kind == 'p':
            return '@a' if which == 0 else '@b'
        return (c['a'] if which == 0 else c['b']) + (c['ua'] if which == 0 else c['ub'])
    return '%s(%s %s %s)' % ('not ' if c['neg'] else '', operand(0), c['op'], operand(1))


def guard_text(g):
    return ', '.join(' and '.join(cond_text(c) for c in ch) for ch in g)


def model_payload(g):
    def q(s):
        f = fr(s)
        return '%d/%d' % (f.numerator, f.denominator)
    return ' | '.join(' & '.join('%d %s %s %s' % (1 if c['neg'] else 0, q(c['a']), c['op'], q(c['b'])) for c in ch) for ch in g)


def mk(neg, a, op, b, shape='pl', ua='', ub=''):
    return {'neg': neg, 'a': a, 'op': op, 'b': b, 'shape': shape, 'ua': ua, 'ub': ub}


def single_catalogue():
    """every operator x not x ordered pair x shape x unit placement, one condition each.
    All conditions of a guard share the call arguments (@a, @b), so in a case every param operand
    on the left is value a and on the right value b."""
    out = []
    for op in OPS:
        for neg in (False, True):
            for a in VALS:
                for b in VALS:
                    for shape in ('pl', 'lp', 'pp'):
                        for ua, ub in (('', ''), ('px', 'px'), ('px', ''), ('', 'em')):
                            if shape != 'pp' and (ua, ub) in (('px', ''), ('', 'em')) and (a, b) not in (('1', '1.0'), ('2', '1'), ('-1', '0'), ('0.5', '2.5'), ('10', '10')):
                                continue  # mixed-unit placements on a representative subset
                            out.append([[mk(neg, a, op, b, shape, ua, ub)]])
    return out


SHAPES = {'and2': [[0, 1]], 'and3': [[0, 1, 2]], 'comma2': [[0], [1]], 'comma3': [[0], [1], [2]],
          'and_comma': [[0, 1], [2]], 'comma_and': [[0], [1, 2]], 'and_comma_and': [[0, 1], [2, 3]],
          'comma_and3': [[0], [1, 2, 3]], 'and3_comma': [[0, 1, 2], [3]]}


def realise(truth, a, b, rng):
    """a condition over the fixed call arguments (a, b) with the wanted truth value"""
    for _ in range(200):
        op = rng.choice(OPS)
        neg = rng.random() < 0.4
        shape = rng.choice(['pl', 'lp', 'pp', 'pl', 'lp'])
        # param operands take the call arguments; literal operands may be anything
        ca = a if shape[0] == 'p' else rng.choice(VALS)
        cb = b if shape[1] == 'p' else rng.choice(VALS)
        c = mk(neg, ca, op, cb, shape)
        if cond_truth(c) == truth:
            return c
    return None


def connective_catalogue(rng, reps):
    out = []
    for name, shape in SHAPES.items():
        n = sum(len(ch) for ch in shape)
        for truths in itertools.product([False, True], repeat=n):
            for _ in range(reps):
                a, b = rng.choice(VALS), rng.choice(VALS)
                conds = [realise(t, a, b, rng) for t in truths]
                if any(c is None for c in conds):
                    continue
                g = [[conds[i] for i in ch] for ch in shape]
                out.append((name, g, a, b))
    return out


def call_args(g):
    """the call arguments: value of @a = left param operands, @b = right param operands (consistent by construction)"""
    a = b = None
    ua = ub = ''
    for ch in g:
        for c in ch:
            if c['shape'][0] == 'p':
                a, ua = c['a'], c['ua']
            if c['shape'][1] == 'p':
                b, ub = c['b'], c['ub']
    return (a or '7') + ua, (b or '7') + ub


def render_guard(i, g):
    a, b = call_args(g)
    return '.m%d(@a, @b) when %s { x: yes }\n.c%d { .m%d(%s, %s); }' % (i, guard_text(g), i, i, a, b)


def run(tier):
    chk = C.Check(PROP, tier, 'proof')
    rng = random.Random(C.seed() * 15485863 + 6)
    build = C.lean_build(PROP)
    missing = chk.set_proof(build, THEOREMS, 'cd lean && lake build Lessm.Props.C06 Lessm.Audit.C06 && lake env lean Lessm/Audit/C06.lean')
    chk.cov['trusted_base'] = C.TRUSTED_BASE
    chk.cov['rule'] = ('exhaustive single-condition catalogue (5 ops x not x 81 ordered value pairs x operand shapes x unit placements) '
                       '+ every truth assignment of 9 connective shapes x %s random realisations + exclusive same-named mixins in every '
                       'order. distinct by guard text and arguments; non-trivial = guard with not/and/comma or a boundary (equal) pair')
    guards = single_catalogue()
    reps = 3 if tier == 'quick' else 40
    conn = connective_catalogue(rng, reps)
    cases = [g for g in guards] + [g for _n, g, _a, _b in conn]
    try:
        model = C.Driver().run([('c06.guard', '\x1f'.join([model_payload(g)])) for g in cases])
    except Exception as e:
        model = [None] * len(cases)
        build.ok = False
        build.log += '\nDRIVER: %r' % e
    out, errs = C.compile_cases(cases, render_guard, chunk=400)
    disagreements = []
    for i, g in enumerate(cases):
        want = guard_truth(g)
        got = (i in out)
        if got and out[i] != 'yes':
            got = None
        nontriv = len(g) > 1 or len(g[0]) > 1 or g[0][0]['neg'] or fr(g[0][0]['a']) == fr(g[0][0]['b'])
        chk.count((guard_text(g), call_args(g)), nontrivial=nontriv)
        if got != want:
            chk.violation({'kind': 'guard', 'guard': guard_text(g), 'args': list(call_args(g)), 'source': render_guard(0, g),
                           'expected': 'body emitted' if want else 'body not emitted',
                           'actual': 'emitted' if got else ('not emitted' if got is False else repr(out.get(i))), 'model': model[i]})
            if len(chk.violations) > 6:
                break
        elif model[i] is not None and (model[i] == '1') != got:
            disagreements.append((guard_text(g), call_args(g), model[i], got))
    for i, rr in errs[:3]:
        chk.violation({'kind': 'guard-error', 'source': render_guard(0, cases[i]), 'actual': list(rr)})
    for k in (3, len(guards) + 5, len(cases) - 1):
        chk.sample({'source': render_guard(k, cases[k]), 'emitted': k in out, 'model': model[k], 'oracle': guard_truth(cases[k])})

    # ---- mutually exclusive same-named mixins
    ex_cases = []
    partitions = [
        [('>', '0'), ('=', '0'), ('<', '0')],
        [('>=', '1'), ('<', '1')],
        [('>', '2.5'), ('=<', '2.5')],
        [('<', '-1'), ('>=', '-1')],
    ]
    for part in partitions:
        for perm in itertools.permutations(range(len(part))):
            for v in VALS:
                for neg_form in (False, True):
                    ex_cases.append((part, perm, v, neg_form))

    NEG = {'>': '=<', '<': '>=', '>=': '<', '=<': '>'}

    def ex_guard(op, lit, neg_form):
        if neg_form and op in NEG:
            return [[mk(True, None, NEG[op], lit, 'pl')]]
        return [[mk(False, None, op, lit, 'pl')]]

    def render_ex(i, c):
        part, perm, v, neg_form = c
        lines = []
        for k in perm:
            op, lit = part[k]
            g = ex_guard(op, lit, neg_form)
            g[0][0]['a'] = v
            lines.append('.e%d(@a, @b) when %s { x: b%d }' % (i, guard_text(g), k))
        lines.append('.c%d { .e%d(%s, 0); }' % (i, i, v))
        return '\n'.join(lines)
    eout, eerrs = C.compile_cases(ex_cases, render_ex, chunk=300)
    try:
        payloads = []
        for part, perm, v, neg_form in ex_cases:
            gs = []
            for k in perm:
                op, lit = part[k]
                g = ex_guard(op, lit, neg_form)
                g[0][0]['a'] = v
                gs.append(model_payload(g))
            payloads.append(('c06.first', '\x1f'.join(gs)))
        emodel = C.Driver().run(payloads)
    except Exception as e:
        emodel = [None] * len(ex_cases)
        build.ok = False
        build.log += '\nDRIVER: %r' % e
    for i, c in enumerate(ex_cases):
        part, perm, v, neg_form = c
        want = [k for k in range(len(part)) if PYOP[part[k][0]](fr(v), fr(part[k][1]))]
        assert len(want) == 1
        got = eout.get(i)
        chk.count(('excl', tuple(part), perm, v, neg_form), nontrivial=True)
        if got != 'b%d' % want[0]:
            chk.violation({'kind': 'exclusive', 'source': render_ex(0, c), 'expected': 'x:b%d' % want[0], 'actual': got, 'model': emodel[i]})
            if len(chk.violations) > 8:
                break
        elif emodel[i] is not None:
            mi = emodel[i]
            if mi == 'none' or perm[int(mi)] != want[0]:
                disagreements.append(('exclusive', render_ex(0, c), emodel[i], got))
    for i, rr in eerrs[:2]:
        chk.violation({'kind': 'exclusive-error', 'source': render_ex(0, ex_cases[i]), 'actual': list(rr)})
    chk.sample({'source': render_ex(9, ex_cases[9]), 'real': eout.get(9), 'model_first_index': emodel[9]})
    chk.cov['disagreements_checked'] = len(disagreements)
    chk.cov['exhaustive'] = True
    chk.cov['catalogue'] = {'single_conditions': len(guards), 'connective_cases': len(conn), 'exclusive_cases': len(ex_cases)}
    C.tie_verdict(chk, build, missing, disagreements, 'Lessm.Guard.passes/firstMatch vs lesscpy',
                  'the complete guard catalogue was run against the real code: no failing input')
    return chk.finish()


def replay(path):
    d = json.load(open(path))
    src = d.get('source')
    if not src:
        print('replay: nothing executable in', path)
        return 2
    r = C.real_compile(src, minify=True)
    print('source  :', src)
    print('actual  :', r)
    print('expected:', d.get('expected'))
    if d['kind'] == 'guard':
        emitted = r[0] == 'ok' and 'x:yes' in r[1]
        bad = emitted != (d['expected'] == 'body emitted')
    else:
        bad = not (r[0] == 'ok' and d['expected'] + ';' in r[1].replace(' ', ''))
    if bad:
        print('VIOLATION property=%s replay=%s' % (PROP, path))
        return 1
    print('replay: property holds on this input now')
    return 0
