"""
C12  Comments, whitespace layout, line endings, last semicolon do not matter.

Proof side : lean/Lessm/Props/C12.lean (filter theorems on the REGENERATED significant-whitespace set: runs of whitespace
             collapse, any gap at a statement boundary is irrelevant, the injected ';' is the written one, line numbers).
Tie (a)    : the filter model against the real lexer: for every generated source (and every re-laid-out variant) the raw
             token stream of the PLY lexer is pushed through Lessm.Lex.filter (driver op c12.filter, regenerated set) and
             compared with what LessLexer.token() returns.
Tie (b) / oracle : metamorphic runs on the real compiler: every program of the other properties' generators (nesting,
             variables, mixins, media, at-rules, strings) and the project's own example corpus is re-rendered under k random
             layouts — every whitespace run outside strings replaced by another non-empty run from {blank, blanks, tab, LF,
             CRLF, LF+indent}, comments (bodies containing ; { } quotes // and /*) inserted at statement boundaries, the
             last semicolon of blocks removed or added — and must compile to the byte-identical CSS.
"""
import glob
import json
import os
import random
import re

import common as C
import canon

PROP = 'C12'
RUNS = [' ', '  ', '\t', '\n', '\r\n', '\n  ', ' \n', '\n\n', '\t \t', '\r\n\r\n    ']
COMMENTS = ['/* c */', '/* a; b { c } d */', '/* "q" \'r\' */', '/* // x */', '// line ; { }\n', '// "unclosed\n', '/**/', '/* * / */', '/*\n multi\n line\n*/',
            '/* url(x) @media @import */', '// /* not open\n', '/* ; */ /* } */', '/** doc **/', '/* x **/', '/****/', '/***/', '/* a * b ** c */', '/*/ */',
            '/* \r\n crlf */', '//\n', '// */\n', '/* // */']


def segments(src):
    """split a source into string literals / comments (kept verbatim) and code"""
    out, i, n = [], 0, len(src)
    cur = []
    while i < n:
        c = src[i]
        if c in '"\'':
            j = canon._scan_string(src, i)
            if cur:
                out.append(('code', ''.join(cur)))
                cur = []
            out.append(('str', src[i:j]))
            i = j
        elif src.startswith('@{', i):
            j = src.find('}', i)
            j = n if j < 0 else j + 1
            if cur:
                out.append(('code', ''.join(cur)))
                cur = []
            out.append(('str', src[i:j]))      # an interpolation is one token
            i = j
        elif src.startswith('/*', i):
            j = src.find('*/', i + 2)
            j = n if j < 0 else j + 2
            if cur:
                out.append(('code', ''.join(cur)))
                cur = []
            out.append(('cmt', src[i:j]))
            i = j
        elif src.startswith('//', i) and not (i > 0 and src[i - 1] == ':'):
            j = src.find('\n', i)
            j = n if j < 0 else j + 1
            if cur:
                out.append(('code', ''.join(cur)))
                cur = []
            out.append(('cmt', src[i:j]))
            i = j
        else:
            cur.append(c)
            i += 1
    if cur:
        out.append(('code', ''.join(cur)))
    return out


def relayout(src, rng, p_comment=0.25, toggle_semi=True):
    segs = segments(src)
    out = []
    for kind, text in segs:
        if kind != 'code':
            out.append(text)
            continue
        # 1. replace every whitespace run by another non-empty run
        def repl(m):
            return rng.choice(RUNS)
        t = re.sub(r'[ \t\r\n]+', repl, text)
        # 2. comments at statement boundaries (after ; { } )
        def ins(m):
            if rng.random() < p_comment:
                return m.group(0) + rng.choice(['', ' ', '\n']) + rng.choice(COMMENTS) + rng.choice(['', ' ', '\n'])
            return m.group(0)
        t = re.sub(r'[;{}]', ins, t)
        out.append(t)
    res = ''.join(out)
    if rng.random() < p_comment:
        res = rng.choice(COMMENTS) + rng.choice(['', '\n']) + res
    if toggle_semi:
        # 3. last semicolon of a block: remove `;` directly before `}` or add one (outside strings / comments)
        segs2 = segments(res)
        out2 = []
        for kind, text in segs2:
            if kind == 'code':
                if rng.random() < 0.5:
                    text = re.sub(r';(\s*)\}', lambda m: (m.group(1) + '}') if rng.random() < 0.6 else m.group(0), text)
            out2.append(text)
        res = ''.join(out2)
    return res


def raw_tokens(src):
    """(type, lexpos) of the raw PLY tokens of a source (real lexer, in-process)"""
    C.use_repo()
    from lesscpy.lessc import lexer as L
    import io as _io
    lx = L.LessLexer()
    lx.input(_io.StringIO(src))
    out = []
    while True:
        t = lx.lexer.token()
        if not t:
            break
        out.append((t.type, t.lexpos))
    return out


def relayout_lexed(src, rng, p_comment=0.2):
    """layout mutation guided by the real lexer's token boundaries (used for the example corpus, whose constructs the
    simple scanner above does not know): whitespace tokens are replaced by other runs, comments are inserted after
    `;` `{` `}` tokens, a `;` token directly before a `}` token is removed when it ends a declaration"""
    try:
        toks = raw_tokens(src)
    except BaseException:
        return None
    edits = []
    depth = 0
    for k, (ty, pos) in enumerate(toks):
        if ty in ('t_popen', 'less_open_format'):
            depth += 1
        elif ty == 't_pclose':
            depth = max(0, depth - 1)
        if ty == 't_ws':
            m = re.match(r'[\r\n]+' if src[pos:pos + 1] in '\r\n' else r'[ \t\f\v]+', src[pos:])
            if m:
                rep = rng.choice(RUNS)
                line_start = src.rfind('\n', 0, pos) + 1
                before = re.sub(r'"[^"\n]*"|\'[^\'\n]*\'', '""', src[line_start:pos])
                if '//' in before.replace('://', ':__') and src[pos] in '\r\n':
                    rep = '\n' + rep       # this line break terminates a // comment: it is not a gap between tokens
                edits.append((pos, pos + m.end(), rep))
        elif ty in ('t_semicolon', 't_bclose') and depth == 0 and rng.random() < p_comment:
            edits.append((pos + 1, pos + 1, rng.choice(['', ' ', '\n']) + rng.choice(COMMENTS) + rng.choice(['', '\n'])))
        if ty == 't_semicolon' and depth == 0 and rng.random() < 0.3:
            j = k + 1
            while j < len(toks) and toks[j][0] == 't_ws':
                j += 1
            prev = toks[k - 1][0] if k else ''
            if j < len(toks) and toks[j][0] == 't_bclose' and prev not in ('t_pclose', 't_ws', 'less_arguments') and not any(e[0] == pos + 1 for e in edits):
                edits.append((pos, pos + 1, ''))
    out = src
    for a, b, rep in sorted(edits, key=lambda e: (-e[0], -e[1])):
        out = out[:a] + rep + out[b:]
    return out


def corpus_sources(rng, tier):
    """programs of the other generators"""
    from checks import C02, C03, C05, C07, C19
    srcs = []
    n = 25 if tier == 'quick' else 400
    for _ in range(n):
        srcs.append(('nest', C02.render_item(C02.rand_tree(rng, 1, False, 3), rng)))
    for _ in range(n):
        srcs.append(('vars', C03.render(C03.rand_program(rng))))
    for _ in range(n):
        srcs.append(('mixin', C05.render(C05.rand_program(rng, 'quick'), rng)))
    for _ in range(n):
        srcs.append(('media', '@w: 7px;\n' + C07.render(C07.rand_media_tree(rng, 0, 3, False, False), rng)))
    for _ in range(n):
        srcs.append(('at', '@w: 5px;\n@c: #f00;\n' + C19.render([C19.rand_item(rng) for _ in range(rng.randrange(1, 5))], rng)))
    strs = ['.a{content:"x;y}z{ /* c */ // d"; color: red}\n.b { font-family: "A  B", \'c;d\', serif; }',
            '@v: foo; .s-@{v} { content: "a @{v} b"; }\n.t { background: url("i j.png") no-repeat; }']
    for s_ in strs:
        srcs.append(('strings', s_))
    return srcs


def raw_and_filtered(src):
    """raw PLY token types and the filtered stream of LessLexer.token() for one source (in-process, real lexer).
    The raw stream is recorded underneath the filter itself, because the filter feeds back into the lexer
    (it resets the property-declaration mode when it injects a ';')."""
    C.use_repo()
    from lesscpy.lessc import lexer as L
    import io as _io
    lx = L.LessLexer()
    lx.input(_io.StringIO(src))
    raw = []
    inner_token = lx.lexer.token

    def recording_token():
        t = inner_token()
        if t:
            raw.append(t.type)
        return t
    lx.lexer.token = recording_token
    filt = []
    while True:
        t = lx.token()
        if not t:
            break
        filt.append(t.type)
    return raw, filt


def _lex_job(src):
    try:
        return ('ok',) + raw_and_filtered(src)
    except BaseException as e:
        return ('err', type(e).__name__, str(e)[:200])


def run(tier):
    chk = C.Check(PROP, tier, 'proof')
    rng = random.Random(C.seed() * 217645199 + 12)
    build = C.lean_build(PROP)
    audit = open(os.path.join(C.LEAN, 'Lessm', 'Audit', 'C12.lean')).read()
    theorems = ['Lessm.Lex.' + t for t in re.findall(r'#print axioms (\S+)', audit)]
    # second proof module: the character-level front end (regex matcher, ply loop, filter) on the regenerated lexer rules
    b2 = C.lean_build('C12Lex', theorems_module='Lessm.Props.C12Lex', extract=False)
    build.ok = build.ok and b2.ok
    build.log += '\n' + b2.log
    build.axioms.update(b2.axioms)
    build.failed_modules += b2.failed_modules
    build.audit_problems += b2.audit_problems
    audit2 = open(os.path.join(C.LEAN, 'Lessm', 'Audit', 'C12Lex.lean')).read()
    theorems += re.findall(r'#print axioms (\S+)', audit2)
    missing = chk.set_proof(build, theorems, 'cd lean && lake build Lessm.Props.C12 Lessm.Audit.C12 Lessm.Props.C12Lex Lessm.Audit.C12Lex && '
                            'lake env lean Lessm/Audit/C12.lean && lake env lean Lessm/Audit/C12Lex.lean')
    chk.cov['trusted_base'] = C.TRUSTED_BASE
    chk.cov['rule'] = ('sources: programs of the generators of C02 C03 C05 C07 C19 + string-heavy samples + the files of test/less that '
                       'compile; each re-rendered under k layouts (k = 4 quick / 10 thorough): every whitespace run replaced by a run from '
                       '%d alternatives incl. LF, CRLF, tabs; comments from %d hostile bodies inserted after ; { } and at the start; '
                       'last semicolons toggled. distinct by variant text; non-trivial = variant differs from the original in at least '
                       'one whitespace run and contains a comment or a toggled semicolon' % (len(RUNS), len(COMMENTS)))
    srcs = corpus_sources(rng, tier)
    # the project's own example corpus (oracle only; labelled a test)
    corpus = []
    for path in sorted(glob.glob(os.path.join(C.REPO, 'test', 'less', '*.less'))):
        try:
            txt = open(path, encoding='utf-8').read()
        except Exception:
            continue
        if '@import' in txt:
            continue          # relative imports need the file's directory: C14's subject
        corpus.append(('corpus:' + os.path.basename(path), txt))
    base = C.compile_many([(s, dict(minify=False)) for _k, s in srcs + corpus])
    k = 4 if tier == 'quick' else 10
    variants = []
    for (kind, src), b in zip(srcs + corpus, base):
        if b[0] != 'ok':
            continue      # programs that do not compile are other properties' subject
        for j in range(k):
            is_corpus = kind.startswith('corpus:')
            v = relayout_lexed(src, rng) if is_corpus else relayout(src, rng, p_comment=0.25, toggle_semi=True)
            if v is None:
                continue
            variants.append((kind, src, v, b[1]))
    res = C.compile_many([(v, dict(minify=False)) for _k, _s, v, _b in variants])
    stats = {}
    for (kind, src, v, want), r in zip(variants, res):
        kk = kind.split(':')[0]
        stats[kk] = stats.get(kk, 0) + 1
        nontriv = ('/*' in v or '//' in v) and v != src
        chk.count(v, nontrivial=nontriv)
        if r[0] != 'ok' or r[1] != want:
            # shrink: try each mutation class alone to name the culprit
            detail = {}
            for name, kw in [] if kind.startswith('corpus:') else (('whitespace-only', dict(p_comment=0.0, toggle_semi=False)), ('comments', dict(p_comment=0.5, toggle_semi=False)),
                             ('semicolons', dict(p_comment=0.0, toggle_semi=True))):
                rr = random.Random(5)
                vv = relayout(src, rr, **kw)
                r2 = C.real_compile(vv, minify=False)
                detail[name] = 'same' if (r2[0] == 'ok' and r2[1] == want) else 'DIFFERS'
            chk.violation({'kind': 'layout', 'source_kind': kind, 'source': v, 'original': src, 'expected': want,
                           'actual': r[1] if r[0] == 'ok' else list(r[:3]), 'mutation_classes': detail})
            if len(chk.violations) > 4:
                break
    # ---- tie (a): filter model vs real filter on raw token streams
    lex_srcs = [s for _k, s in srcs] + [v for _k, _s, v, _b in variants[:len(variants) // 2]]
    lres = C.pool().map(_lex_job, lex_srcs, chunksize=8)
    lines = []
    idx = []
    for i, lr in enumerate(lres):
        if lr[0] == 'ok':
            lines.append(('c12.filter', ' '.join(lr[1])))
            idx.append(i)
    disagreements = []
    try:
        mout = C.Driver().run(lines)
        for i, mo in zip(idx, mout):
            chk.count(('lex', lex_srcs[i]), nontrivial=True)
            if mo.split(' ') != lres[i][2] and not (mo == '' and lres[i][2] == []):
                disagreements.append((lex_srcs[i][:300], mo[:400], ' '.join(lres[i][2])[:400]))
    except Exception as e:
        build.ok = False
        build.log += '\nDRIVER: %r' % e
    chk.sample({'original': variants[0][1][:300], 'variant': variants[0][2][:400], 'same_css': res[0][0] == 'ok' and res[0][1] == variants[0][3]})
    chk.sample({'raw_tokens': ' '.join(lres[0][1][:40]) if lres[0][0] == 'ok' else None, 'filtered_real': ' '.join(lres[0][2][:40]) if lres[0][0] == 'ok' else None})
    C.replay_known(chk, PROP, opts=dict(minify=True))
    chk.cov['disagreements_checked'] = len(disagreements)
    chk.cov['exhaustive'] = False
    chk.cov['distribution'] = stats
    chk.cov['corpus_files'] = len(corpus)
    chk.cov['token_streams_compared'] = len(lines)
    # the character-level front end (regular expressions regenerated from the lexer object, hand-modelled rule functions, token filter
    # with its feedback, LALR driver on the regenerated tables) against the real lexer / parser on TEXT
    import front
    ntexts, fdis, _esc = front.run(chk, rng, tier, want=('raw', 'filtered'))
    chk.cov['front_end_texts'] = ntexts
    disagreements.extend(fdis)
    C.tie_verdict(chk, build, missing, disagreements, 'Lessm.Lex.filter (regenerated significant_ws) vs LessLexer.token',
                  'layout variants of all generated programs compiled to identical CSS: no failing input')
    return chk.finish()


def replay(path):
    d = json.load(open(path))
    src, orig = d.get('source'), d.get('original')
    if not src or not orig:
        print('replay: nothing executable in', path)
        return 2
    a = C.real_compile(orig, minify=False)
    b = C.real_compile(src, minify=False)
    print('original ->', a[:2])
    print('variant  ->', b[:2])
    if a[0] != 'ok' or b[0] != 'ok' or a[1] != b[1]:
        print('VIOLATION property=%s replay=%s' % (PROP, path))
        return 1
    print('replay: property holds on this input now')
    return 0
