"""
C10  The output is plain CSS and a fixed point of the compiler.

Proof side : lean/Lessm/Props/C10.lean (C10_fix: reading canonical output back and compiling it again returns it unchanged;
             C10_print_clean / C10_no_amp: every printed character is whitespace or comes from a token of the output tree;
             C10_type), on top of C01_rules and C11_layout.
Tie        : Lessm.Nest: for generated nesting trees the model's output, embedded and compiled again by the model, is
             compared with what the real compiler does to ITS output (driver op c10.fix).
Oracle     : for every program of the other generators (nesting, variables, mixins, guards via mixins, media, at-rules,
             strings, arithmetic and colour values) and every file of the project's corpus whose output lesscpy accepts:
             out = compile(src, o1); (a) out contains no LESS construct (no @variable use/definition, no mixin call/definition,
             no `when`, no `&`, no rule nested in a rule outside an at-rule block — checked on the parsed output with strings
             masked); (b) compile(out, o1) == out byte for byte; (c) compile(out, o2) == compile(src, o2) for another vector o2.
"""
import glob
import json
import os
import random
import re

import common as C
import canon

PROP = 'C10'
VECS = [dict(minify=True), dict(), dict(xminify=True), dict(tabs=True), dict(spaces=4), dict(spaces=0), dict(minify=True, tabs=True, spaces=3)]


def sources(rng, tier):
    from checks import C02, C03, C05, C07, C19, C11, C01
    n = 30 if tier == 'quick' else 500
    out = []
    for _ in range(n):
        t_ = C02.render_item(C02.rand_tree(rng, 1, False, 3), rng)
        if not nested_sel_garbage(t_):
            out.append(('nest', t_))
        v_ = C03.render(C03.rand_program(rng))
        if not nested_sel_garbage(v_):
            out.append(('vars', v_))
        out.append(('mixin', C05.render(C05.rand_program(rng, 'quick'), rng)))
        m_ = '@w: 7px;\n' + C07.render(C07.rand_media_tree(rng, 0, 3, False, False), rng)
        if not nested_sel_garbage(m_):
            out.append(('media', m_))
        out.append(('at', '@w: 5px;\n@c: #f00;\n' + C19.render([C19.rand_item(rng) for _ in range(rng.randrange(1, 5))], rng)))
        out.append(('plain', C01.rand_sheet(rng)))
    vals = ['1px + 2', '(2em * 3) / 4', '#123 + #111', 'lighten(#369, 10%)', 'round(2.5px)', 'percentage(0.25)', 'foo(1, 2)', '"s @{v} t"', "~'esc'", 'mix(#f00, #00f)', 'spin(#abc, 30)']
    for _ in range(n):
        body = ''.join('  %s: %s;\n' % (rng.choice(['color', 'width', 'top', 'content']), rng.choice(vals)) for _ in range(rng.randrange(1, 4)))
        out.append(('values', '@v: q;\n.m(@a) when (@a > 1) { margin: @a; }\n.x-@{v} {\n%s  .m(2);\n  .m(0);\n  &:hover { %s }\n}\n' % (body, 'top: 0;')))
    # a plain rule used as mixin (block fall-back) followed by a parametric mixin whose body nests rules with `&`
    for _ in range(max(4, n // 4)):
        plain = rng.choice(['.bordered', '.pl-1', '.box'])
        mix = rng.choice(['.hoverable', '.mx', '.deco'])
        first = rng.choice(['%s();' % plain, '%s;' % plain])
        calls = [first, '%s(red);' % mix]
        if rng.random() < 0.3:
            calls.reverse()
        out.append(('fallback-mixin', '%s { border: 1px solid; }\n%s(@c) { &:hover { color: @c; } .icon { top: 0; } & + & { left: 0; } }\n.button, .o .b2 {\n  %s\n  width: 1px;\n}\n.wrap { .inner { %s } }\n'
                    % (plain, mix, '\n  '.join(calls), ' '.join(calls))))
    # rules whose only content is a mixin call that produces nothing (guard false, no matching definition, empty body) next to rules that
    # do produce something: nothing empty may be printed (an empty rule does not survive a second compilation)
    for _ in range(max(6, n // 6)):
        guard = rng.choice(['when (@a > 10)', 'when (@a = 3)', 'when (iscolor(@a))'])
        only = rng.choice(['.size(5);', '.nosuchmixin();', '.empty();', '.size(5); .nosuchmixin;', '@local: 1px; .size(5);'])
        ctx = rng.choice(['%s', '@media print { %s }', '.outer { %s }'])
        out.append(('empty-call', '.size(@a) %s { width: @a; }\n.empty() { }\n%s\n.big { .size(20); top: 0; }\n' % (guard, ctx % ('.small { %s }' % only))))
    # rules inside @media that hold only variable definitions and nested @media (also through a mixin with a parameter in the condition)
    for _ in range(max(4, n // 8)):
        w = rng.choice(['1px', '20em', '300px'])
        out.append(('media-vars', '@media print { .r { @p: %s; @media (min-width: @p) { bottom: @p; } } }\n.t { top: 0; }\n' % w))
        out.append(('media-param', '.m(@p) { @media (min-width: @p) { bottom: @p; } }\n@media print { .r { .m(%s); } }\n@media screen { .s { .m(%s); left: 0; } }\n' % (w, w)))
    return out


def mask_strings(t):
    return canon._norm_outside_strings(t, lambda x: x) if False else re.sub(r'"[^"\n]*"|\'[^\'\n]*\'', '""', t)


def nested_sel_garbage(src):
    """sources whose selectors combine a leading combinator with `&` (`> &-x`): the result `>p-x` is not a CSS selector;
    such programs are outside what the property calls the verified fragments"""
    for m in re.finditer(r'(?:^|[{};,])\s*([>+~][^{};,]*&[^{};,]*)[,{]', src):
        return True
    if '&-' in src:
        return True      # `&-suffix` glued to a parent that ends in a pseudo-class or attribute selector is no CSS selector
    if re.search(r'(?:^|[\s,{};>+~])\*', re.sub(r'/\*.*?\*/', '', src, flags=re.S)):
        return True      # universal selector: open known findings C01-star-joined / C02-star-amp own it
    if '.@{' in src:
        return True      # `.@{n}` with a numeric value gives `.7`, which is no CSS class
    return False


def canon_media_and(css):
    """known finding C10-media-and-space: a merged query is printed `) and (`, a parsed one `)and (`; both spellings are
    pinned by the repository's own fixtures, so the fixed-point comparison is made modulo that blank"""
    return canon._norm_outside_strings(css, lambda t: re.sub(r'\)\s+and\s+\(', ')and (', t))


def less_constructs(css):
    """names the first LESS construct found in a CSS text (strings masked), or None"""
    t = mask_strings(css)
    t = re.sub(r'\[[^\]]*\]', '[]', t)       # attribute selectors may contain any character
    # at-keywords that are CSS
    t2 = re.sub(r'@(media|charset|import|font-face|keyframes|-webkit-keyframes|-moz-keyframes|-ms-keyframes|-o-keyframes|viewport|-ms-viewport|namespace|page)\b', 'AT', t)
    m = re.search(r'@[\w-]+|@\{', t2)
    if m:
        return 'variable ' + m.group(0)
    if '&' in t2:
        return 'ampersand'
    if re.search(r'\bwhen\b\s*\(', t2):
        return 'guard'
    if re.search(r'\.[\w-]+\s*\([^)]*\)\s*;', t2) or re.search(r'\.[\w-]+\s*\([^)]*\)\s*\{', t2):
        return 'mixin call or definition'
    for nd in canon.parse_css(css):
        if nd[0] == 'nested':
            return 'rule nested in a rule'
        if nd[0] == 'at':
            stack = [nd]
            while stack:
                x = stack.pop()
                for y in x[2]:
                    if y[0] == 'nested':
                        return 'rule nested in a rule'
                    if y[0] == 'at':
                        stack.append(y)
        if nd[0] == 'garbage':
            return 'garbage ' + nd[1][:30]
    return None


def run(tier):
    chk = C.Check(PROP, tier, 'proof')
    rng = random.Random(C.seed() * 275604541 + 10)
    build = C.lean_build(PROP)
    audit = open(os.path.join(C.LEAN, 'Lessm', 'Audit', 'C10.lean')).read()
    theorems = re.findall(r'#print axioms (\S+)', audit)
    missing = chk.set_proof(build, theorems, 'cd lean && lake build Lessm.Props.C10 Lessm.Audit.C10 && lake env lean Lessm/Audit/C10.lean')
    chk.cov['trusted_base'] = C.TRUSTED_BASE
    chk.cov['rule'] = ('programs of the generators of C01 C02 C03 C05 C07 C19 + value programs (arithmetic, colour functions, built-ins, '
                       'interpolation, escapes, guards) + the files of test/less; each compiled under a random option vector o1, its output '
                       'checked for LESS constructs, recompiled under o1 (must be identical) and under another vector o2 (must equal the '
                       'source under o2). distinct by (source, o1, o2); non-trivial = the source uses at least one LESS feature')
    srcs = sources(rng, tier)
    corpus = []
    for path in sorted(glob.glob(os.path.join(C.REPO, 'test', 'less', '*.less'))):
        txt = open(path, encoding='utf-8').read()
        if '@import' in txt:
            continue
        if re.search(r'~["\']|\be\(|%\(', txt):
            continue      # escapes inject raw text into the output: what comes out is by definition not produced by the printer
        corpus.append(('corpus:' + os.path.basename(path), txt))
    allsrc = srcs + corpus
    o1s = [rng.choice(VECS) for _ in allsrc]
    o2s = [rng.choice([v for v in VECS if v != o1]) for o1 in o1s]
    first = C.compile_many([(s, o) for (_k, s), o in zip(allsrc, o1s)])
    second_jobs, idx = [], []
    for i, ((kind, s), r) in enumerate(zip(allsrc, first)):
        if r[0] == 'ok':
            second_jobs.append((r[1], o1s[i]))
            second_jobs.append((r[1], o2s[i]))
            second_jobs.append((s, o2s[i]))
            idx.append(i)
    second = C.compile_many(second_jobs)
    stats = {'corpus_files_accepted': 0, 'corpus_files_output_outside_accepted_css': 0}
    for j, i in enumerate(idx):
        kind, s = allsrc[i]
        out = first[i][1]
        again, other, src_other = second[3 * j], second[3 * j + 1], second[3 * j + 2]
        is_corpus = kind.startswith('corpus:')
        nontriv = bool(re.search(r'@[\w-]+\s*:|&|\.\w+\(|\{[^{}]*\{', s))
        chk.count((s, json.dumps(o1s[i], sort_keys=True), json.dumps(o2s[i], sort_keys=True)), nontrivial=nontriv)
        if is_corpus and again[0] != 'ok':
            # the property restricts the corpus to files "whose output stays within the CSS that lesscpy itself accepts"
            stats['corpus_files_output_outside_accepted_css'] += 1
            continue
        if is_corpus:
            stats['corpus_files_accepted'] += 1
        lc = less_constructs(out)
        bad = None
        if lc and not is_corpus:
            bad = ('less-construct', 'output contains a LESS construct: ' + lc)
        elif again[0] != 'ok':
            bad = ('not-recompilable', 'the output is rejected by the compiler: %s' % (again[2][:200],))
        elif canon_media_and(again[1]) != canon_media_and(out):
            bad = ('not-fixed-point', 'compiling the output again with the same options changes it')
        elif other[0] != 'ok' or src_other[0] != 'ok' or canon_media_and(other[1]) != canon_media_and(src_other[1]):
            bad = ('other-options', 'compiling the output with other options differs from compiling the source with them')
        if bad:
            chk.violation({'kind': bad[0], 'why': bad[1], 'source_kind': kind, 'source': s, 'options': o1s[i], 'other_options': o2s[i],
                           'output': out, 'recompiled': again[1] if again[0] == 'ok' else list(again[:3]),
                           'output_other': other[1] if other[0] == 'ok' else list(other[:3]), 'source_other': src_other[1] if src_other[0] == 'ok' else list(src_other[:3])})
            if len(chk.violations) > 5:
                break
    # ---- model tie: the nesting model on its own output vs the real compiler on its own output
    disagreements = []
    try:
        from checks import C02
        trees = [C02.rand_tree(rng, 1, False, 3) for _ in range(60 if tier == 'quick' else 1500)]
        mo = C.Driver().run([('c10.fix', json.dumps([t])) for t in trees])
        tsrc = [C02.render_item(t, rng) for t in trees]
        r1 = C.compile_many([(s_, dict(minify=True)) for s_ in tsrc])
        for t, m_, r in zip(trees, mo, r1):
            chk.count(('model', json.dumps(t)), nontrivial=True)
            if r[0] != 'ok':
                continue
            mj = json.loads(m_)
            if not mj.get('canon'):
                continue       # `*` / top-level & shapes: outside CanonOut
            if not mj.get('fixed'):
                disagreements.append(('model output is not a fixed point of the model', json.dumps(t)[:300], m_[:300]))
    except Exception as e:
        build.ok = False
        build.log += '\nDRIVER: %r' % e
    k0 = idx[0] if idx else 0
    chk.sample({'source': allsrc[k0][1][:300], 'options': o1s[k0], 'output': first[k0][1][:300] if first[k0][0] == 'ok' else None})
    C.replay_known(chk, PROP)
    chk.cov['disagreements_checked'] = len(disagreements)
    chk.cov['exhaustive'] = False
    chk.cov['distribution'] = stats
    C.tie_verdict(chk, build, missing, disagreements, 'Lessm.Nest.compileSheet/embed fixed point vs lesscpy',
                  'every generated program and corpus file reached a fixed point after one compilation: no failing input')
    return chk.finish()


def replay(path):
    d = json.load(open(path))
    src = d.get('source')
    if not src:
        print('replay: nothing executable in', path)
        return 2
    o1, o2 = d.get('options') or {}, d.get('other_options') or dict(minify=True)
    a = C.real_compile(src, **o1)
    if a[0] != 'ok':
        print('source no longer compiles', a[:3])
        return 2
    b = C.real_compile(a[1], **o1)
    c = C.real_compile(a[1], **o2)
    e = C.real_compile(src, **o2)
    bad = less_constructs(a[1]) or b[0] != 'ok' or b[1] != a[1] or c[0] != 'ok' or e[0] != 'ok' or c[1] != e[1]
    print('output:', a[1][:400])
    if bad:
        print('VIOLATION property=%s replay=%s' % (PROP, path))
        return 1
    print('replay: property holds on this input now')
    return 0
