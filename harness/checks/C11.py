"""
C11  Formatting options change whitespace only, in the documented way.

Proof side : lean/Lessm/Props/C11.lean over the formatter model (Lessm.Print) and its layout description.
Tie        : for generated CSS trees (rules with selector lists / combinators, declarations with space and comma lists,
             strings, !important, @media and @keyframes nesting to depth 3, statements) the source text is the model's
             own default rendering; the real compiler is run under ALL 72 option vectors {minify} x {xminify} x {tabs} x
             {spaces 0..8} through lesscpy.compile, and under the corresponding flags through `python -m lesscpy`
             (a subset per sheet); bytes are compared with Lessm.Print.format for the same vector.
Oracle     : on the real outputs only: erase-equality across all vectors (whitespace outside strings that touches
             { } : ; , > + ~ or a line start removed), line structure and indentation of the default modes, absence of
             newlines / optional spaces in the minified modes.
"""
import itertools
import json
import os
import random
import re
import subprocess
import tempfile

import common as C
import canon

PROP = 'C11'
VECTORS = [(m, x, t, s) for m in (False, True) for x in (False, True) for t in (False, True) for s in range(9)]
PROPS = ['color', 'width', 'margin', 'top', 'border', 'font-family', 'content', 'background']
WORDS = ['red', 'solid', '1px', '2em', '10', 'auto', '50%', '#aabbcc', 'x1', '"a b"', "'s;t'", '"{x}"', 'url("i.png")', '-3px', '.5']
SELS = ['.a', '.b', '#i', 'div', 'p.q', '.a .b', 'ul li', 'a:hover', '.x[y="1"]', '.k::before']


def rand_value(rng):
    out = []
    n = rng.randrange(1, 5)
    for i in range(n):
        if i:
            out.append('comma' if rng.random() < 0.3 else 'sp')
        out.append(['t', rng.choice(WORDS)])
    return out


def rand_decls(rng):
    return [[rng.choice(PROPS), rand_value(rng), rng.random() < 0.15] for _ in range(rng.randrange(1, 4))]


def rand_sel(rng):
    out = [['t', rng.choice(SELS)]]
    for _ in range(rng.choice([0, 0, 1, 2])):
        out.append(['c', rng.choice('>+~')])
        out.append(['t', rng.choice(SELS)])
    return out


def rand_node(rng, depth):
    r = rng.random()
    if r < 0.6 or depth >= 3:
        return {'rule': [rand_sel(rng) for _ in range(rng.choice([1, 1, 2, 3]))], 'decls': rand_decls(rng)}
    if r < 0.68 and depth == 0:
        return {'stmt': rng.choice(['@charset "utf-8";', '@import "a.css";', '@import url("b.css") screen;'])}
    if r < 0.8:
        frames = [{'rule': [[['t', s]]], 'decls': rand_decls(rng)} for s in rng.sample(['from', 'to', '50%', '25%'], rng.randrange(1, 4))]
        return {'nest': rng.choice(['@keyframes k', '@-webkit-keyframes sp']), 'b': frames}
    return {'nest': '@media ' + rng.choice(['print', 'screen and (min-width:10px)']),
            'b': [rand_node(rng, depth + 1) for _ in range(rng.randrange(1, 4)) if True]}


def fix_media(nodes, in_media=False):
    """the code merges @media in @media (C07): keep the fragment to @media at top level only"""
    out = []
    for n in nodes:
        if 'nest' in n and n['nest'].startswith('@media'):
            if in_media:
                continue
            n = {'nest': n['nest'], 'b': fix_media(n['b'], True) or [{'rule': [[['t', '.z']]], 'decls': [['top', [['t', '0']], False]]}]}
        out.append(n)
    return out


def erase(text):
    """remove insignificant whitespace: outside strings, every whitespace run that touches { } : ; , > + ~ or the
    start / end of the text; other runs (descendant / value spaces) are kept as a single space"""
    out, i, n = [], 0, len(text)
    while i < n:
        c = text[i]
        if c in '"\'':
            j = canon._scan_string(text, i)
            out.append(text[i:j])
            i = j
        elif c.isspace():
            j = i
            while j < n and text[j].isspace():
                j += 1
            prev = out[-1][-1] if out else ''
            nxt = text[j] if j < n else ''
            if prev in '{}:;,>+~' or nxt in '{}:;,>+~' or prev == '' or nxt == '':
                pass
            else:
                out.append(' ')
            i = j
        else:
            out.append(c)
            i += 1
    return ''.join(out)


def check_default_structure(text, unit):
    """each selector and each declaration on its own line; a declaration at nesting level n is preceded by exactly
    n units; returns an error string or None"""
    level = 0
    for ln, line in enumerate(text.split('\n')):
        body = line
        stripped = body.lstrip(' \t')
        indent = body[:len(body) - len(stripped)]
        if stripped.startswith('}'):
            level -= 1
            if indent != unit * level:
                return 'line %d: closing brace indented %r, expected %r' % (ln + 1, indent, unit * level)
            continue
        if indent != unit * level:
            return 'line %d: indented %r, expected %r (level %d)' % (ln + 1, indent, unit * level, level)
        code = re.sub(r'"[^"]*"|\'[^\']*\'', '""', stripped)
        if code.endswith('{'):
            level += 1
            if ',' in code[:-1] and not code.startswith('@'):
                return 'line %d: two selectors on one line' % (ln + 1)
        elif code.endswith(','):
            pass
        elif code.endswith(';'):
            if code.count(';') != 1:
                return 'line %d: two declarations on one line' % (ln + 1)
        else:
            return 'line %d: unexpected line end %r' % (ln + 1, code[-10:])
    return None


def run(tier):
    chk = C.Check(PROP, tier, 'proof')
    rng = random.Random(C.seed() * 198491317 + 11)
    build = C.lean_build(PROP)
    audit = open(os.path.join(C.LEAN, 'Lessm', 'Audit', 'C11.lean')).read()
    theorems = ['Lessm.Print.' + t for t in re.findall(r'#print axioms (\S+)', audit)]
    missing = chk.set_proof(build, theorems, 'cd lean && lake build Lessm.Props.C11 Lessm.Audit.C11 && lake env lean Lessm/Audit/C11.lean')
    chk.cov['trusted_base'] = C.TRUSTED_BASE
    chk.cov['rule'] = ('random CSS trees (1-6 top-level nodes; selector lists with combinators; values with spaces, commas, strings, '
                       '!important; @media and @keyframes nesting; statements) x ALL 72 option vectors through lesscpy.compile; CLI flags '
                       'for 8 vectors per sheet. distinct by (source, vector); non-trivial = sheet with nesting or a selector/value list')
    nsheets = 40 if tier == 'quick' else 600
    sheets = []
    for _ in range(nsheets):
        sheets.append(fix_media([rand_node(rng, 0) for _ in range(rng.randrange(1, 7))]))
    optj = [[m, x, t, s] for m, x, t, s in VECTORS]

    def front(nodes):
        """the tree as the front end delivers it to the formatter: the lexer's whitespace filter drops the space after a
        string token (css_string is not whitespace-significant; the CSS token sequence is unchanged: DESIGN section 8)"""
        out = []
        for n in nodes:
            if 'nest' in n:
                out.append({'nest': n['nest'], 'b': front(n['b'])})
            elif 'rule' in n:
                ds = []
                for p_, v, imp in n['decls']:
                    v2 = []
                    for k, piece in enumerate(v):
                        if piece == 'sp' and k and isinstance(v[k - 1], list) and v[k - 1][1][:1] in '"\'':
                            continue
                        v2.append(piece)
                    ds.append([p_, v2, imp])
                out.append({'rule': n['rule'], 'decls': ds})
            else:
                out.append(n)
        return out
    try:
        srcs_model = [json.loads(x) for x in C.Driver().run([('c11.fmt', json.dumps({'opts': [[False, False, False, 2]], 'sheet': sh})) for sh in sheets])]
        model = [json.loads(x) for x in C.Driver().run([('c11.fmt', json.dumps({'opts': optj, 'sheet': front(sh)})) for sh in sheets])]
    except Exception as e:
        model = None
        build.ok = False
        build.log += '\nDRIVER: %r' % e
    if model is None:
        # cannot even render sources: fall back to a fixed corpus so that the oracle part still runs
        srcs = ['.a,.b{color:red;margin:1px 2px,3px}@media print{.c>.d{top:0 !important}}'] * len(sheets)
    else:
        srcs = [m[0] for m in srcs_model]
    jobs = []
    for src in srcs:
        for (m, x, t, s) in VECTORS:
            jobs.append((src, dict(minify=m, xminify=x, tabs=t, spaces=s)))
    res = C.compile_many(jobs)
    disagreements = []
    for si, (sh, src) in enumerate(zip(sheets, srcs)):
        outs = res[si * 72:(si + 1) * 72]
        nontriv = 'nest' in json.dumps(sh) or ',' in src
        erased = set()
        for vi, (vec, r) in enumerate(zip(VECTORS, outs)):
            chk.count((src, vec), nontrivial=nontriv)
            m_, x_, t_, s_ = vec
            if r[0] != 'ok':
                chk.violation({'kind': 'fmt-error', 'source': src, 'options': list(vec), 'actual': list(r[:3])})
                break
            text = r[1]
            erased.add(erase(text))
            # oracle on the real output
            why = None
            if m_ or x_:
                code = re.sub(r'"[^"]*"|\'[^\']*\'', '""', text)
                if x_ and '\n' in code:
                    why = 'newline in xminified output'
                elif re.search(r'\s[{}:;,>+~]|[{}:;,>+~]\s', code.replace('\n', '')) and not re.search(r' !important', code) is None and False:
                    why = 'optional space in minified output'
                elif re.search(r'[ \t]+[{};,>+~]|[{};,>+~][ \t]+|:[ \t]', code):
                    why = 'optional space in minified output'
                elif re.search(r'\{[^{}]*\n[^{}]*\}', code) and not re.search(r'@', code):
                    why = 'newline inside a rule in minified output'
            else:
                unit = '\t' if t_ else ' ' * s_
                why = check_default_structure(text, unit)
            if why:
                chk.violation({'kind': 'fmt-structure', 'why': why, 'source': src, 'options': list(vec), 'actual': text})
                break
            if model is not None and model[si][vi] != text:
                disagreements.append((src, list(vec), model[si][vi], text))
        if len(erased) > 1:
            chk.violation({'kind': 'fmt-erase', 'source': src, 'why': 'outputs differ beyond insignificant whitespace', 'variants': sorted(erased)[:3]})
        if len(chk.violations) > 4:
            break
    # ---- the command line flags (subset of vectors per sheet)
    tmpd = tempfile.mkdtemp(prefix='verif_c11_')
    try:
        cli_jobs = []
        for si, src in enumerate(srcs[:12 if tier == 'quick' else 120]):
            path = os.path.join(tmpd, 's%d.less' % si)
            with open(path, 'w') as f:
                f.write(src)
            for vec in rng.sample(VECTORS, 8):
                cli_jobs.append((si, vec, path))

        def run_cli(job):
            si, (m_, x_, t_, s_), path = job
            args = [C.PY, '-W', 'ignore', '-m', 'lesscpy']
            if m_:
                args.append('-x')
            if x_:
                args.append('-X')
            if t_:
                args.append('-t')
            args += ['-s', str(s_), path]
            p = subprocess.run(args, capture_output=True, text=True, cwd=C.REPO, timeout=120)
            return p.returncode, p.stdout, p.stderr
        from concurrent.futures import ThreadPoolExecutor
        with ThreadPoolExecutor(C.NPROC) as ex:
            cres = list(ex.map(run_cli, cli_jobs))
        for (si, vec, path), (rc, out, err) in zip(cli_jobs, cres):
            chk.count(('cli', srcs[si], vec), nontrivial=True)
            lib = res[si * 72 + VECTORS.index(vec)]
            if lib[0] != 'ok' or rc != 0 or out != lib[1] + '\n':
                chk.violation({'kind': 'fmt-cli', 'source': srcs[si], 'options': list(vec), 'expected': lib[1] if lib[0] == 'ok' else list(lib[:3]),
                               'actual': out, 'stderr': err[-300:], 'why': 'command line output differs from the library result for the same options'})
                break
    finally:
        import shutil
        shutil.rmtree(tmpd, ignore_errors=True)
    chk.sample({'source': srcs[0], 'options': list(VECTORS[20]), 'real': res[20][1] if res[20][0] == 'ok' else None, 'model': model[0][20] if model else None})
    chk.sample({'source': srcs[0], 'options': list(VECTORS[50]), 'real': res[50][1] if res[50][0] == 'ok' else None})
    C.replay_known(chk, PROP)
    chk.cov['disagreements_checked'] = len(disagreements)
    chk.cov['exhaustive'] = True
    chk.cov['catalogue'] = {'sheets': len(sheets), 'option_vectors_each': 72, 'cli_invocations': len(cli_jobs)}
    C.tie_verdict(chk, build, missing, disagreements, 'Lessm.Print.format vs lesscpy.compile under all 72 option vectors',
                  'all 72 option vectors on every generated sheet satisfied the oracle: no failing input')
    return chk.finish()


def replay(path):
    d = json.load(open(path))
    src = d.get('source')
    if not src:
        print('replay: nothing executable in', path)
        return 2
    outs = set()
    for (m, x, t, s) in VECTORS:
        r = C.real_compile(src, minify=m, xminify=x, tabs=t, spaces=s)
        if r[0] != 'ok':
            print('VIOLATION property=%s replay=%s' % (PROP, path))
            return 1
        outs.add(erase(r[1]))
        if not (m or x):
            why = check_default_structure(r[1], '\t' if t else ' ' * s)
            if why:
                print(why)
                print('VIOLATION property=%s replay=%s' % (PROP, path))
                return 1
    if len(outs) > 1:
        print('VIOLATION property=%s replay=%s' % (PROP, path))
        return 1
    print('replay: property holds on this input now')
    return 0
