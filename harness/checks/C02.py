"""
C02  Nested rules flatten to the correct selectors, once each, in source order.

Proof side : lean/Lessm/Props/C02.lean (C02 model=spec over the scope stack, C02_once_dfs, C02_count, C02_amp,
             C02_desc, C02_comb, tuples_mem/length).
Tie        : Lessm.Nest.compileSheet (Identifier.parse/root/pairwise + two passes) against the real compiler.
             Catalogue: parent lists of size 1-3 x ~30 child shapes (& prefix / middle / suffix / twice / three
             times, &-x, &:hover, &.b, & + &, .x &, leading > + ~, pseudo / attribute parts, comma lists mixing
             these) x depth 1-3 x layouts; random trees up to depth 7.
Oracle     : an independent Python flattening on abstract selectors (string substitution of & / descendant
             join), compared as the property states it: selector *set* per rule, rule order, declarations.
"""
import itertools
import json
import os
import random
import re

import common as C
import canon

PROP = 'C02'
THEOREMS = ['Lessm.Nest.C02_stack', 'Lessm.Nest.C02', 'Lessm.Nest.C02_sheet', 'Lessm.Nest.C02_once_dfs', 'Lessm.Nest.C02_count',
            'Lessm.Nest.C02_amp', 'Lessm.Nest.C02_desc', 'Lessm.Nest.C02_comb', 'Lessm.Nest.tuples_mem', 'Lessm.Nest.tuples_length']

SIMPLE = ['.a', '.b', '.c', '.d', '.e1', '#i', '#main', 'div', 'p', 'span', 'ul', 'li', 'a', '.x-y', '.k_2']
PSEUDO = [[':', 'hover'], [':', 'focus'], [':', ':', 'before'], ['[x]'], ['[y="1"]'], [':', 'first-child'], ['[t="R&D"]'], ['[d=q&a]']]
COMBS = ['>', '+', '~']


# A child selector is a list of tokens exactly as the grammar delivers them after flattening.
# Text is produced by concatenating the tokens, optionally adding spaces the lexer filter removes.

def compound(rng, allow_amp, no_elem=False):
    toks = []
    r = rng.random()
    if allow_amp and r < 0.35:
        toks.append('&')
        r2 = rng.random()
        if r2 < 0.3:
            toks += rng.choice(PSEUDO)
        elif r2 < 0.45:
            toks.append('-' + rng.choice(['x', 'sfx', 'b2']))
        elif r2 < 0.6:
            toks.append(rng.choice(['.m', '.n']))
        return toks
    s = rng.choice([x for x in SIMPLE if not (no_elem and x[0] not in '.#')])
    toks.append(s)
    if rng.random() < 0.25 and not s.startswith('#'):
        toks.append(rng.choice(['.q', '.r']))
    if rng.random() < 0.25:
        toks += rng.choice(PSEUDO)
    return toks


def rand_selector(rng, allow_amp, nested, star_ok=False):
    """fragment boundary (DESIGN section 8): after an `&-suffix` token the lexer is in its property-declaration mode, so
    no element name may follow in the same selector (it would be a syntax error); the generator respects that."""
    toks = []
    if nested and rng.random() < 0.2:
        toks.append(rng.choice(COMBS))
    n = rng.choice([1, 1, 1, 2, 2, 3])
    amps = 0
    for k in range(n):
        if k:
            if rng.random() < 0.35:
                toks += [' ', rng.choice(COMBS)] if rng.random() < 0.5 else [rng.choice(COMBS)]
            else:
                toks.append(' ')
        no_elem = any(t.startswith('-') for t in toks)
        if star_ok and ((k == 0 and not toks) or (k == n - 1 and k > 0)) and rng.random() < 0.15:
            c = ['*']      # universal selector: only where the grammar takes it and only in leaf rules (DESIGN D21)
        else:
            c = compound(rng, allow_amp and nested and amps < 2, no_elem)
        amps += c.count('&')
        toks += c
    return toks


def rand_sel_list(rng, nested, maxw=3, star_ok=False):
    w = rng.choice([1, 1, 2, 2, 3][:maxw + 2]) if maxw >= 3 else rng.choice([1, 1, 2][:maxw + 1])
    out = []
    for k in range(w):
        if k:
            out.append(',')
        out += rand_selector(rng, True, nested, star_ok)
    if rng.random() < 0.5:
        out.append(' ')       # space before '{'
    return out


def sel_multiplicity(sel, mult):
    """number of flattened selectors a rule with selector token list `sel` has under a parent with `mult` of them
    (every & of a part stands for any parent: mult ** count)"""
    total, amps, seen = 0, 0, False
    for t in list(sel) + [',']:
        if t == ',':
            total += mult ** max(1, amps)
            amps = 0
        elif t == '&':
            amps += 1
    return total


def rand_tree(rng, depth, nested=False, maxdepth=7, mult=1):
    body = []
    ndecl = rng.choice([0, 1, 1, 2, 3])
    nk = 0 if depth >= maxdepth else rng.choice([0, 0, 1, 1, 2, 3] if depth < 3 else [0, 0, 0, 1, 1])
    # the expansion is a product over the levels (and a power for several &): keep it below a few hundred selectors per rule
    for _try in range(8):
        sel = rand_sel_list(rng, nested, 3 if depth <= 2 else 1, star_ok=(nk == 0))
        if sel_multiplicity(sel, mult) <= 250:
            break
    else:
        sel = ['.z%d' % depth]
    mult = sel_multiplicity(sel, mult)
    items = ['d'] * ndecl + ['r'] * nk
    rng.shuffle(items)
    for it in items:
        if it == 'd':
            body.append({'d': [rng.choice(['color', 'width', 'margin', 'top', 'z-index']), rng.choice(['red', '1px', '0', 'auto', '2em 3em', 'blue'])]})
        else:
            body.append(rand_tree(rng, depth + 1, True, maxdepth, mult))
    return {'r': sel, 'b': body}


# ---- rendering
def render_tokens(toks, rng):
    out = []
    for i, t in enumerate(toks):
        if t in COMBS:
            out.append(t + (' ' if rng.random() < 0.6 else ''))      # space after a combinator is dropped by the lexer filter
        elif t == ',':
            out.append(',' + rng.choice(['', ' ', '\n  ']))
        elif t == ' ':
            out.append(rng.choice([' ', '  ', ' ']))
        else:
            out.append(t)
    return ''.join(out)


def render_item(it, rng, ind=0):
    pad = '  ' * ind
    if 'd' in it:
        return '%s%s: %s;\n' % (pad, it['d'][0], it['d'][1])
    s = pad + render_tokens(it['r'], rng) + '{\n'
    for b in it['b']:
        s += render_item(b, rng, ind + 1)
    return s + pad + '}\n'


# ---- independent oracle on strings
def split_selectors(toks):
    sels, cur = [], []
    for t in toks:
        if t == ',':
            sels.append(cur)
            cur = []
        else:
            cur.append(t)
    sels.append(cur)
    return sels


def sel_text(toks):
    s = ''.join(toks)
    return canon.norm_selector(s)


def oracle_flat(it, parents, out):
    """parents: list of canonical selector strings or None"""
    if 'd' in it:
        return
    mine = []
    for child in split_selectors(it['r']):
        ctoks = list(child)
        while ctoks and ctoks[-1] == ' ':
            ctoks.pop()
        k = ctoks.count('&')
        if parents is None:
            mine.append(sel_text(ctoks))
        elif k == 0:
            ctext = sel_text(ctoks)
            for p in parents:
                mine.append(p + ctext if ctext[:1] in '>+~' else p + ' ' + ctext)
        else:
            for tup in itertools.product(parents, repeat=k):
                it_ = iter(tup)
                s = ''.join(next(it_) if t == '&' else t for t in ctoks)
                mine.append(canon.norm_selector(s))
    decls = [tuple(b['d']) for b in it['b'] if 'd' in b]
    if decls:
        out.append((mine, decls))
    for b in it['b']:
        oracle_flat(b, mine, out)


def catalogue(rng):
    parents = [['.a'], ['.a', ',', '.b'], ['.a', ' ', '.p', ',', '#i', ',', 'div', '>', '.q']]
    children = [
        ['.c'], ['.c', ' ', '.d'], ['>', '.c'], ['+', '.c'], ['~', '.c'], ['.c', '>', '.d'], ['.c', ' ', '>', '.d'],
        ['&', ':', 'hover'], ['&', '-x'], ['&', '.m'], ['&', ' ', '.c'], ['.x', ' ', '&'], ['&', ' ', '+', '&'], ['&', ' ', '&'],
        ['&', ' ', '&', ' ', '&'], ['.x', ' ', '&', ':', 'hover'], ['&', '>', '.c'], ['&', ' ', '>', '.c'], ['&', '[x]'],
        ['.c', ',', '.d'], ['&', ':', 'hover', ',', '&', ' ', '.c'], ['.c', ',', '>', '.d'], ['.x', ' ', '&', ',', '.c'],
        ['div'], ['p', '.q'], ['.c', ':', ':', 'before'], ['.c', '[y="1"]'], ['&', ':', 'first-child'], ['span', ' ', '&'],
        ['&', '.m', ' ', '&', '.n'], ['.c', ' ', '.d', ' ', '.e1'], ['&'],
        ['*'], ['>', '*', '+', '*'], ['*', '>', 'li'], ['.w', ' ', '*', '~', 'p'], ['*', '+', '&'], ['&', ' ', '*'], ['&', '>', '*'],
        ['a', '[t="R&D"]'], ['&', '[d=q&a]'], ['.c', '[t="R&D"]', ' ', '&'],
    ]
    out = []
    for p in parents:
        for c in children:
            for depth in (1, 2, 3):
                leaf = {'r': c + ([' '] if rng.random() < 0.5 else []), 'b': [{'d': ['color', 'red']}]}
                node = leaf
                for lvl in range(depth - 1):
                    mid = [['.m1'], ['&', '.z'], ['>', '.g', ',', '.h']][lvl % 3]
                    node = {'r': mid, 'b': [{'d': ['top', '0']}, node] if lvl % 2 else [node]}
                out.append({'r': p, 'b': [{'d': ['width', '1px']}, node, {'d': ['z-index', '2']}]})
    return out


def observe(css_text):
    obs = []
    for ctx, sels, decls in canon.rules(css_text):
        obs.append((ctx, sels, [(p, v) for p, v, _i in decls]))
    return obs


def run(tier):
    chk = C.Check(PROP, tier, 'proof')
    rng = random.Random(C.seed() * 86028121 + 2)
    build = C.lean_build(PROP)
    # second proof module: the other evaluator models (variables, media, mixins) are conservative extensions of this one
    # (they agree with Lessm.Nest on sheets without their own constructs), so what is proved here is not contradicted there
    b2 = C.lean_build('Cross', theorems_module='Lessm.Props.Cross', extract=False, need_driver=False)
    build.ok = build.ok and b2.ok
    build.log += '\n' + b2.log
    build.axioms.update(b2.axioms)
    build.failed_modules += b2.failed_modules
    build.audit_problems += b2.audit_problems
    cross = re.findall(r'#print axioms (\S+)', open(os.path.join(C.LEAN, 'Lessm', 'Audit', 'Cross.lean')).read())
    missing = chk.set_proof(build, THEOREMS + cross, 'cd lean && lake build Lessm.Props.C02 Lessm.Audit.C02 Lessm.Props.Cross Lessm.Audit.Cross && '
                            'lake env lean Lessm/Audit/C02.lean && lake env lean Lessm/Audit/Cross.lean')
    chk.cov['trusted_base'] = C.TRUSTED_BASE
    chk.cov['rule'] = ('catalogue: 3 parent lists x 32 child shapes x depth 1-3 (each under two random layouts) + random rule trees of depth <= 7 '
                       'with comma lists, leading combinators and & in any position. distinct by rendered source; non-trivial = depth >= 2 '
                       'and (a comma list or an & or a leading combinator)')
    trees = catalogue(rng)
    trees = trees + [json.loads(json.dumps(t)) for t in trees]    # second layout of every catalogue entry
    nrand = 700 if tier == 'quick' else 15000
    for _ in range(nrand):
        trees.append(rand_tree(rng, 1, False, rng.choice([2, 3, 4, 7])))
    srcs = [render_item(t, rng) for t in trees]
    try:
        model = C.Driver().run([('c02.flat', json.dumps([t])) for t in trees])
    except Exception as e:
        model = [None] * len(trees)
        build.ok = False
        build.log += '\nDRIVER: %r' % e
    res = C.compile_many([(s, dict(minify=True)) for s in srcs])
    disagreements = []
    for i, (t, src, r) in enumerate(zip(trees, srcs, res)):
        want = []
        oracle_flat(t, None, want)
        flat_toks = json.dumps(t)
        nontriv = ('"b": [{"r"' in flat_toks or '{"r"' in flat_toks[5:]) and (',' in src.split('{')[0] or '&' in src or re.search(r'\{\s*[>+~]', src) is not None)
        chk.count(src, nontrivial=nontriv)
        if r[0] != 'ok':
            chk.violation({'kind': 'nest-error', 'source': src, 'actual': list(r), 'expected': want, 'model': model[i]})
            if len(chk.violations) > 5:
                break
            continue
        got = observe(r[1])
        got_cmp = [(sorted(s), d) for _c, s, d in got]
        want_cmp = [(sorted(s), [tuple(x) for x in d]) for s, d in want]
        if got_cmp != want_cmp or any(c for c, _s, _d in got):
            chk.violation({'kind': 'nest', 'source': src, 'expected': want, 'actual': r[1], 'model': model[i]})
            if len(chk.violations) > 5:
                break
            continue
        if model[i] is not None:
            try:
                m = json.loads(model[i])
                m_cmp = [([canon.norm_selector(x) for x in s], [tuple(x) for x in d]) for s, d in m]
                g_cmp = [(s, d) for _c, s, d in got]
                if m_cmp != g_cmp:        # the model mirrors the code: list order included
                    disagreements.append((src, model[i], r[1]))
            except ValueError:
                disagreements.append((src, model[i], r[1]))
    for k in (5, 100, len(trees) - 1):
        chk.sample({'source': srcs[k], 'real': res[k][1] if res[k][0] == 'ok' else list(res[k]), 'model': model[k]})
    C.replay_known(chk, PROP)
    chk.cov['disagreements_checked'] = len(disagreements)
    chk.cov['exhaustive'] = False
    chk.cov['catalogue'] = {'placements': len(catalogue(random.Random(0))), 'layouts_each': 2, 'random_trees': nrand}
    C.tie_verdict(chk, build, missing, disagreements, 'Lessm.Nest.compileSheet vs lesscpy',
                  'the nesting catalogue and random trees were run against the real code: no failing input')
    return chk.finish()


def replay(path):
    d = json.load(open(path))
    src = d.get('source')
    if not src:
        print('replay: nothing executable in', path)
        return 2
    r = C.real_compile(src, minify=True)
    print('source  :', src)
    print('actual  :', r)
    print('expected:', d.get('expected'))
    bad = True
    if r[0] == 'ok' and isinstance(d.get('expected'), list):
        got = [(sorted(s), [list(x) for x in dd]) for _c, s, dd in observe(r[1])]
        want = [(sorted(s), [list(x) for x in dd]) for s, dd in d['expected']]
        bad = got != want
    if bad:
        print('VIOLATION property=%s replay=%s' % (PROP, path))
        return 1
    print('replay: property holds on this input now')
    return 0
