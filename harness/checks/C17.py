"""
C17  Numeric built-ins agree with exact arithmetic; unknown functions pass through.

Proof side : lean/Lessm/Props/C17.lean
Tie        : Lessm.Builtins.callLexeme / callUnknown against the real compiler on the dense grid the
             property names (k + {0, ±0.001, ±0.25, ±0.49, ±0.5, ±0.51, ±0.75}, k in -20..20, both tiers
             in full), with and without units, as literal / variable / expression argument.
Oracle     : exact Fractions in Python (independent of the Lean model).
"""
import json
import random
import re
from fractions import Fraction
from decimal import Decimal

import common as C

PROP = 'C17'
THEOREMS = ['Lessm.Builtins.C17_round_near', 'Lessm.Builtins.C17_round_tie', 'Lessm.Builtins.C17_round_int',
            'Lessm.Builtins.C17_round_odd', 'Lessm.Builtins.C17_floor', 'Lessm.Builtins.C17_ceil',
            'Lessm.Builtins.C17_apply', 'Lessm.Builtins.C17_incdec', 'Lessm.Builtins.C17_passthrough'] + [
            'Lessm.Num.' + t for t in ('C17_exp_partition', 'C17_exp_conservative', 'C17_exp_nil', 'C17_exp_unit_no_exp', 'C17_exp_e_letter',
                                      'C17_exp_em', 'C17_exp_reads', 'C17_exp_value_neg', 'C17_exp_value_pos', 'C17_exp_value_nosign')]
FNS = ['round', 'ceil', 'floor', 'increment', 'decrement', 'percentage']
UNITS = ['', 'px', 'em', '%', 's']
# (0.00001 / 0.00005: magnitudes whose repr() is in exponent form when they stand alone - seeded C17-3)
OFFS = ['0', '0.00001', '0.00005', '0.001', '0.25', '0.49', '0.5', '0.51', '0.75', '0.999']
NUM_RE = re.compile(r'^(-?(?:\d+\.?\d*|\.\d+)(?:e[-+]?\d+)?)([a-z%]*)$')


def dec(s):
    return Fraction(Decimal(s))


def fmt_dec(q):
    """exact decimal text of a Fraction with a finite decimal expansion"""
    d = Decimal(q.numerator) / Decimal(q.denominator)
    s = format(d, 'f')
    if '.' in s:
        s = s.rstrip('0').rstrip('.')
    return s or '0'


def oracle(fn, q, unit):
    if fn == 'round':
        a = abs(q)
        r = Fraction((a + Fraction(1, 2)).__floor__())
        r = -r if q < 0 else r
    elif fn == 'ceil':
        r = Fraction(q.__ceil__())
    elif fn == 'floor':
        r = Fraction(q.__floor__())
    elif fn == 'increment':
        r = q + 1
    elif fn == 'decrement':
        r = q - 1
    else:
        r = q * 100
        unit = '%'
    if r == 0:
        unit = ''
    return r, unit


def close(a, b):
    return a == b or abs(a - b) <= Fraction(1, 10 ** 9) * max(abs(a), abs(b))


def parse_out(txt):
    m = NUM_RE.match(txt or '')
    if not m:
        return None
    return dec(m.group(1)), m.group(2)


def grid():
    vals = []
    for k in range(-20, 21):
        for o in OFFS:
            for sg in (1, -1):
                vals.append(Fraction(k) + sg * dec(o))
    return sorted(set(vals))


def render(i, case):
    fn, lex, form = case
    if form == 'literal':
        return '.c%d{x:%s(%s)}' % (i, fn, lex)
    if form == 'variable':
        return '@v%d:%s;.c%d{x:%s(@v%d)}' % (i, lex, i, fn, i)
    # expression: (2*value)/2 keeps the value exact in binary floating point
    m = NUM_RE.match(lex)
    q2 = dec(m.group(1)) * 2
    return '.c%d{x:%s(%s%s / 2)}' % (i, fn, fmt_dec(q2), m.group(2))


UNKNOWN_NAMES = ['foo', 'translate', 'cubic-bezier', 'calc-ish', 'opacity', 'process', 'tokens', 'steps', 'my_fn', 'x1', 'operate', 'fmt', 'parse']
ARG_ATOMS = [('1px', '1px'), ('2', '2'), ('-3.5em', '-3.5em'), ('"a b"', '"a b"'), ("'q;r'", "'q;r'"), ('#ffffff', '#ffffff'),
             ('#FFF', '#ffffff'), ('solid', 'solid'), ('1px + 1', '2px'), ('2 * 3', '6'), ('(4em - 1)', '3em'),
             ('bar(2*3)', 'bar(6)'), ('50%', '50%'), ('0.5', '0.5'), ('@u', '7px'), ('10 / 4', '2.5'),
             # blanks before a comma / parenthesis inside a string must survive (seeded C17-4: the passed-through text was post-processed)
             ('"a ,b"', '"a ,b"'), ("'x ,'", "'x ,'"), ('"(a )"', '"(a )"'), ('"  "', '"  "'), ('"f( 1 ,2 )"', '"f( 1 ,2 )"')]


def split_correspondence(rng, n):
    """utility.split_unit / analyze_number (with the exponent group of the repair C17-exponent-arg) against Lessm.Num.splitUnitE /
    analyzeE on number-like lexemes, in-process -> (count, disagreements)"""
    import sys
    sys.path.insert(0, C.REPO)
    try:
        from lesscpy.lessc import utility as U
    finally:
        sys.path.pop(0)
    lex = ['1e-05em', '-5e-05px', '1em', '2ex', '3e2em', '-.5e', '1e', '1e+', '1e-', '1e+3', '1e3', '7', '-7', '.5', '5.', '1.5e-3%', '12e', '1e-05',
           '0e0', '-0', '1.2.3', '..', '-', 'e5', '1e5e5', '1ee5', '1E5', '1e-5-5', '10px', '-10.25em', '1e10s']
    mant = ['1', '-1', '0.5', '.25', '-12.75', '5e', '7e-', '3e+', '2e1', '9e-04', '4e+2', '6E3']
    unit = ['', 'px', 'em', 'ex', 'e', '%', 's', 'e5', 'rem', 'deg']
    for _ in range(n):
        lex.append(rng.choice(mant) + rng.choice(unit))
    lex = sorted(set(lex))
    try:
        model = C.Driver().run([('c17.split', l) for l in lex])
    except Exception as e:  # noqa
        return len(lex), [(lex[0], 'DRIVER: %r' % e, None)]
    dis = []
    for l, m in zip(lex, model):
        n_, u_ = U.split_unit(l)
        if n_ == '' and u_ == '':
            real = 'none'
        else:
            try:
                v = int(n_) if re.fullmatch(r'-?\d+', n_) else float(n_)
                real_v = Num_ratstr(Fraction(Decimal(n_)))
                del v
            except Exception:  # noqa
                real_v = 'nan'
            real = '%s [%s] %s' % (n_, u_, real_v)
        if real != m:
            dis.append((l, m, real))
    return len(lex), dis


def Num_ratstr(q):
    return '%d/%d' % (q.numerator, q.denominator)


def run(tier):
    chk = C.Check(PROP, tier, 'proof')
    rng = random.Random(C.seed() * 104729 + 17)
    build = C.lean_build(PROP)
    missing = chk.set_proof(build, THEOREMS, 'cd lean && lake build Lessm.Props.C17 Lessm.Audit.C17 && lake env lean Lessm/Audit/C17.lean')
    chk.cov['trusted_base'] = C.TRUSTED_BASE
    chk.cov['rule'] = ('full grid k+{0,±.00001,±.00005,±.001,±.25,±.49,±.5,±.51,±.75,±.999}, k=-20..20 x 6 built-ins x units {none,px,em,%,s} x '
                       '{literal, variable, expression} (thorough: all; quick: all values x all functions, unit/form rotated); '
                       'unknown-function calls with 0-4 arguments from the value grammar. distinct by (fn, lexeme, form); '
                       'non-trivial = non-integral or negative argument, or an unknown function with >= 2 arguments')
    vals = grid()
    cases = []
    n = 0
    for q in vals:
        for fn in FNS:
            if tier == 'thorough':
                combos = [(u, f) for u in UNITS for f in ('literal', 'variable', 'expression')]
            else:
                combos = [(UNITS[n % len(UNITS)], ('literal', 'variable', 'expression')[n % 3]), (UNITS[(n + 2) % len(UNITS)], 'literal')]
            for u, form in combos:
                lex = fmt_dec(q) + u
                if rng.random() < 0.15 and 0 < abs(q) < 1:
                    lex = lex.replace('0.', '.', 1)     # leading-dot spelling
                if q == 0 and form == 'expression':
                    form = 'literal'   # `0 / x` is kept literally (font shorthand rule, carved out by C04)
                cases.append((fn, lex, form))
                n += 1
    try:
        model = C.Driver().run([('c17.call', '%s %s' % (fn, lex)) for fn, lex, _ in cases])
    except Exception as e:
        model = [None] * len(cases)
        build.ok = False
        build.log += '\nDRIVER: %r' % e
    out, errs = C.compile_cases(cases, render)
    disagreements = []
    for i, (fn, lex, form) in enumerate(cases):
        m = NUM_RE.match(lex)
        q, u = dec(m.group(1)), m.group(2)
        want = oracle(fn, q, u)
        got = parse_out(out.get(i))
        chk.count((fn, lex, form), nontrivial=(q.denominator != 1 or q < 0))
        if got is None or not close(got[0], want[0]) or got[1] != want[1]:
            chk.violation({'kind': 'builtin', 'fn': fn, 'arg': lex, 'form': form, 'source': render(0, (fn, lex, form)),
                           'expected': '%s%s' % (fmt_dec(want[0]) if want[0].denominator in (1, 2, 4, 5, 8, 10, 20, 25, 40, 50, 100, 125, 200, 250, 500, 1000) else str(want[0]), want[1]),
                           'actual': out.get(i), 'model': model[i]})
            if len(chk.violations) > 6:
                break
        elif model[i] is not None:
            mm = model[i].split(' ')
            mq = Fraction(mm[0]) if mm[0] != 'none' else None
            mu = mm[1] if len(mm) > 1 else ''
            if mq is None or not close(mq, got[0]) or mu != got[1]:
                disagreements.append((fn, lex, form, model[i], out.get(i)))
    for i, rr in errs[:3]:
        chk.violation({'kind': 'builtin-error', 'case': list(cases[i]), 'source': render(0, cases[i]), 'actual': list(rr)})
    chk.sample({'case': list(cases[5]), 'source': render(5, cases[5]), 'real': out.get(5), 'model': model[5]})
    chk.sample({'case': list(cases[len(cases) // 2]), 'source': render(1, cases[len(cases) // 2]), 'real': out.get(len(cases) // 2), 'model': model[len(cases) // 2]})

    # ---- unknown functions pass through
    ucases = []
    nun = 400 if tier == 'quick' else 4000
    for k in range(nun):
        name = UNKNOWN_NAMES[k % len(UNKNOWN_NAMES)]
        args = [rng.choice(ARG_ATOMS) for _ in range(rng.randrange(0, 5))]
        if not args:
            args = [rng.choice(ARG_ATOMS)]
        ucases.append((name, args))

    def urender(i, c):
        return '@u:7px;.c%d{x:%s(%s)}' % (i, c[0], ', '.join(a[0] for a in c[1]))
    uout, uerrs = ({}, [])
    # strings may contain ';' so these go one rule per stylesheet chunk of 1 to keep the parse trivial
    ures = C.compile_many([(urender(i, c), dict(minify=True)) for i, c in enumerate(ucases)])
    try:
        umodel = C.Driver().run([('c17.unknown', '\x1f'.join([c[0]] + [a[1] for a in c[1]])) for c in ucases])
    except Exception as e:
        umodel = [None] * len(ucases)
        build.ok = False
        build.log += '\nDRIVER: %r' % e
    for i, (c, r) in enumerate(zip(ucases, ures)):
        want = '%s(%s)' % (c[0], ','.join(a[1] for a in c[1]))
        got = None
        if r[0] == 'ok':
            mm = re.match(r'^\.c%d\{x:(.*);\}$' % i, r[1], re.S)
            got = mm.group(1) if mm else r[1]
        chk.count(('unknown', c[0], tuple(a[0] for a in c[1])), nontrivial=len(c[1]) >= 2)
        # canonical comparison: optional spaces after commas are not part of the claim
        canon = lambda t: re.sub(r',\s+', ',', t or '').strip()
        if canon(got) != want:
            chk.violation({'kind': 'passthrough', 'source': urender(i, c), 'expected': want, 'actual': got if r[0] == 'ok' else list(r),
                           'model': umodel[i]})
            if len(chk.violations) > 6:
                break
        elif umodel[i] is not None and umodel[i] != canon(got):
            disagreements.append(('unknown', urender(i, c), umodel[i], got))
    chk.sample({'source': urender(3, ucases[3]), 'real': ures[3][1] if ures[3][0] == 'ok' else list(ures[3]), 'model': umodel[3]})
    nsplit, sdis = split_correspondence(rng, 300 if tier == 'quick' else 5000)
    chk.cov['split_unit_lexemes_compared'] = nsplit
    disagreements.extend(('split_unit',) + d for d in sdis[:3])
    chk.cov['disagreements_checked'] = len(disagreements)
    chk.cov['exhaustive'] = (tier == 'thorough')
    chk.cov['grid_values'] = len(vals)
    C.tie_verdict(chk, build, missing, disagreements, 'Lessm.Builtins.callLexeme/callUnknown vs lesscpy',
                  'full numeric grid and the unknown-function catalogue were run against the real code: no failing input')
    return chk.finish()


def replay(path):
    d = json.load(open(path))
    src = d.get('source')
    if not src:
        print('replay: nothing executable in', path)
        return 2
    r = C.real_compile(src, minify=True)
    print('source  :', src)
    print('actual  :', r)
    print('expected:', d.get('expected'))
    ok = r[0] == 'ok' and (d.get('expected') or '') in re.sub(r',\s+', ',', r[1])
    if not ok:
        print('VIOLATION property=%s replay=%s' % (PROP, path))
        return 1
    print('replay: property holds on this input now')
    return 0
