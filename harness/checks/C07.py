"""
C07  Nested @media bubbles to the top level, selector kept, conditions conjoined.

Proof side : lean/Lessm/Props/C07.lean — model of Block.parse's rotation (Lessm.Media.observe) = declarative
             (media-conjunction, selector, declarations) semantics (Lessm.Media.specSheet); structural corollaries.
Tie        : model against the real compiler on a placement catalogue (media at depth 1-4, in comma-list
             parents, in &-rules, in mixin-free bodies, media in media to depth 4, before/after declarations and
             nested rules) x condition forms (type, type and (feature), (feature), several features, variable
             feature values), and random trees.
Oracle     : independent Python computation of every declaration group's (media conjunction, selector) context
             and of the order rule (unconditional before media-conditional), compared on canon.rules().
"""
import json
import random
import re

import common as C
import canon
from checks import C02 as N

PROP = 'C07'
QUERIES = [['print'], ['screen'], ['screen', 'and', '(min-width:100px)'], ['(max-width:50em)'],
           ['(min-width:10px)', 'and', '(max-width:20px)'], ['only', 'screen', 'and', '(orientation:landscape)'],
           ['tv', 'and', '(color)'], ['(min-width:@w)'], ['not', 'print']]


def qtext(q):
    return ' '.join(q)


def rand_media_tree(rng, depth, maxdepth, in_rule, in_media):
    """items of a body"""
    items = []
    n = rng.randrange(1, 4) if depth < 2 else rng.randrange(1, 3)
    for _ in range(n):
        r = rng.random()
        if r < 0.4 and in_rule:
            items.append({'d': [rng.choice(['color', 'width', 'margin', 'top']), rng.choice(['red', '1px', '0', 'auto', 'blue'])]})
        elif r < 0.65 and depth < maxdepth:
            qs = [q for q in QUERIES if not (in_media and q[0] in ('only', 'not', 'print', 'screen', 'tv'))] if in_media else QUERIES
            items.append({'m': rng.choice(qs), 'b': rand_media_tree(rng, depth + 1, maxdepth, in_rule, True)})
        elif depth < maxdepth:
            sel = N.rand_sel_list(rng, in_rule, 2)
            items.append({'r': sel, 'b': rand_media_tree(rng, depth + 1, maxdepth, True, in_media)})
        elif in_rule:
            items.append({'d': ['color', 'red']})
    return items


def catalogue():
    PMAP = {'x': 'color', 'y': 'width', 'z': 'height', 'w': 'margin', 'u': 'top', 'v': 'left', 't': 'right', 'k': 'bottom'}
    D = lambda p, v: {'d': [PMAP[p], v]}
    out = []
    for q in QUERIES:
        out.append([{'r': ['.a'], 'b': [{'m': q, 'b': [D('x', '1')]}]}])
        out.append([{'r': ['.a'], 'b': [D('y', '2'), {'m': q, 'b': [D('x', '1')]}, D('z', '3')]}])
        out.append([{'r': ['.a', ',', '.b'], 'b': [{'m': q, 'b': [D('x', '1')]}]}])
        out.append([{'r': ['.a'], 'b': [{'r': ['.b', ' '], 'b': [{'r': ['&', ':', 'hover'], 'b': [{'m': q, 'b': [D('x', '1')]}]}]}]}])
        out.append([{'r': ['.a'], 'b': [{'m': q, 'b': [D('x', '1'), {'r': ['.b'], 'b': [D('y', '2')]}, {'r': ['&', '.c'], 'b': [D('w', '3')]}]}]}])
        out.append([{'m': q, 'b': [{'r': ['.a'], 'b': [D('x', '1')]}, {'r': ['.b', ',', '.c'], 'b': [D('y', '2')]}]}])
        for q2 in [['(min-width:1px)'], ['(max-width:2px)', 'and', '(color)']]:
            if q[0] in ('only', 'not'):
                continue
            out.append([{'m': q, 'b': [{'r': ['.a'], 'b': [{'m': q2, 'b': [D('x', '1')]}]}]}])
            out.append([{'r': ['.a'], 'b': [{'m': q, 'b': [{'m': q2, 'b': [D('x', '1')]}]}]}])
            out.append([{'r': ['.a'], 'b': [{'m': q, 'b': [D('y', '0'), {'m': q2, 'b': [D('x', '1'), {'m': ['(max-width:9px)'], 'b': [D('k', '3')]}]}]}]}])
            out.append([{'m': q, 'b': [{'r': ['.a'], 'b': [D('x', '1'), {'m': q2, 'b': [D('y', '2')]}]}, {'r': ['.b'], 'b': [D('z', '3')]}]}])
            out.append([{'r': ['.p'], 'b': [{'r': ['.a'], 'b': [{'m': q, 'b': [D('x', '1')]}, D('u', '1')]}, {'m': q2, 'b': [{'r': ['.c'], 'b': [D('v', '2')]}]}, {'r': ['.d'], 'b': [D('t', '5')]}]}])
    return out


def render(items, rng, ind=0):
    pad = '  ' * ind
    s = ''
    for it in items:
        if 'd' in it:
            s += '%s%s: %s;\n' % (pad, it['d'][0], it['d'][1])
        elif 'm' in it:
            s += '%s@media %s {\n%s%s}\n' % (pad, qtext(it['m']), render(it['b'], rng, ind + 1), pad)
        else:
            s += '%s%s{\n%s%s}\n' % (pad, N.render_tokens(it['r'], rng), render(it['b'], rng, ind + 1), pad)
    return s


# ---- independent oracle: walk the source, collect (media path, selector list, decls) and the order rule
def oracle(items, medias, parents):
    """returns (uncond, bubbled): lists of (media tuple, selector list, decls)"""
    un, bub = [], []
    for it in items:
        if 'r' in it:
            tmp = []
            N.oracle_flat({'r': it['r'], 'b': []}, parents, tmp)   # only to compute the combined selectors
            mine = combined(it['r'], parents)
            decls = [tuple(b['d']) for b in it['b'] if 'd' in b]
            if decls:
                un.append((tuple(medias), mine, decls))
            u2, b2 = oracle(it['b'], medias, mine)
            un += u2
            bub += b2
        elif 'm' in it:
            m2 = medias + [qtext(it['m'])]
            decls = [tuple(b['d']) for b in it['b'] if 'd' in b]
            if decls:
                bub.append((tuple(m2), parents or [], decls))
            u2, b2 = oracle(it['b'], m2, parents)
            bub += u2 + b2
    return un, bub


def combined(toks, parents):
    out = []
    N.oracle_flat({'r': toks, 'b': [{'d': ['x', 'y']}]}, parents, out)
    return out[0][0]


def norm_media(p):
    return re.sub(r'\s+', '', p)


def expected_of(sh):
    un = []
    for it in sh:
        u, b = oracle([it], [], None)
        un += u + b
    want = [(norm_media('and'.join(m)) if m else '', sorted(s), [tuple(x) for x in d]) for m, s, d in un]
    return [(w[0].replace('@w', '7px'), w[1], w[2]) for w in want]


def observed_of(css, sort=True):
    got, nested = [], False
    for ctx, sels, decls in canon.rules(css):
        if len(ctx) > 1:
            nested = True
        pre = ''.join(norm_media(c.replace('@media', '', 1)) for c in ctx)
        got.append((pre, sorted(sels) if sort else sels, [(p, v) for p, v, _ in decls]))
    return got, nested


def property_fails(sh, rng_seed=1):
    src = '@w: 7px;\n' + render(sh, random.Random(rng_seed))
    r = C.real_compile(src, minify=True)
    if r[0] != 'ok':
        return True
    got, nested = observed_of(r[1])
    return nested or got != expected_of(sh)


def run(tier):
    chk = C.Check(PROP, tier, 'proof')
    rng = random.Random(C.seed() * 122949823 + 7)
    build = C.lean_build(PROP)
    import os
    audit = open(os.path.join(C.LEAN, 'Lessm', 'Audit', 'C07.lean')).read()
    theorems = ['Lessm.Media.' + t for t in re.findall(r'#print axioms (\S+)', audit)]
    missing = chk.set_proof(build, theorems, 'cd lean && lake build Lessm.Props.C07 Lessm.Audit.C07 && lake env lean Lessm/Audit/C07.lean')
    chk.cov['trusted_base'] = C.TRUSTED_BASE
    chk.cov['rule'] = ('placement catalogue (9 condition forms x 6 placements + 7 x 2 x 5 media-in-media shapes) and random trees to depth 5 '
                       'mixing rules (comma lists, &, combinators) and @media at every level. distinct by source; non-trivial = an @media '
                       'below depth 1 or inside another @media')
    sheets = catalogue()
    nrand = 600 if tier == 'quick' else 15000
    for _ in range(nrand):
        sheets.append(rand_media_tree(rng, 0, rng.choice([2, 3, 3, 4, 5]), False, False))
    srcs = ['@w: 7px;\n' + render(s, rng) for s in sheets]
    try:
        payload = [json.dumps(s).replace('@w', '7px') for s in sheets]
        model = [json.loads(x) for x in C.Driver().run([('c07.run', p) for p in payload])]
    except Exception as e:
        model = [None] * len(sheets)
        build.ok = False
        build.log += '\nDRIVER: %r' % e
    res = C.compile_many([(s, dict(minify=True)) for s in srcs])
    disagreements = []
    for i, (sh, src, r) in enumerate(zip(sheets, srcs, res)):
        nontriv = re.search(r'\{[^{}]*\{[^{}]*@media', src, re.S) is not None or src.count('@media') > 1
        chk.count(src, nontrivial=nontriv)
        un, bub = [], []
        for it in sh:
            u, b = oracle([it], [], None)
            un_b = u + b
            un += un_b
        want = [(norm_media('and'.join(m)) if m else '', sorted(s), [tuple(x) for x in d]) for m, s, d in un]
        want = [(w[0].replace('@w', '7px'), w[1], w[2]) for w in want]
        if r[0] != 'ok':
            small = C.shrink_tree(sh, property_fails) if property_fails(sh) else sh
            ssrc = '@w: 7px;\n' + render(small, random.Random(1))
            rr = C.real_compile(ssrc, minify=True)
            chk.violation({'kind': 'media-error', 'source': ssrc, 'actual': rr[1] if rr[0] == 'ok' else list(rr[:3]), 'expected': expected_of(small),
                           'original_source': src})
            if len(chk.violations) > 5:
                break
            continue
        got = []
        nested_media = False
        for ctx, sels, decls in canon.rules(r[1]):
            if len(ctx) > 1:
                nested_media = True
            pre = ''.join(norm_media(c.replace('@media', '', 1)) for c in ctx)
            got.append((pre, sorted(sels), [(p, v) for p, v, _ in decls]))
        if got != want or nested_media:
            small = C.shrink_tree(sh, property_fails) if property_fails(sh) else sh
            ssrc = '@w: 7px;\n' + render(small, random.Random(1))
            rr = C.real_compile(ssrc, minify=True)
            chk.violation({'kind': 'media', 'source': ssrc, 'expected': expected_of(small), 'actual': rr[1] if rr[0] == 'ok' else list(rr[:3]),
                           'original_source': src})
            if len(chk.violations) > 5:
                break
            continue
        if model[i] is not None:
            m = model[i]
            mm = [(norm_media(t[0] or ''), [canon.norm_selector(x) for x in t[1]], [tuple(x) for x in t[2]]) for t in m['model']]
            gg = []
            for ctx, sels, decls in canon.rules(r[1]):
                gg.append((''.join(norm_media(c.replace('@media', '', 1)) for c in ctx), sels, [(p, v) for p, v, _ in decls]))
            if mm != gg:
                disagreements.append((src, m['model'], r[1]))
            elif m['model'] != m['spec']:
                disagreements.append(('model != spec (the theorem says this cannot happen)', src, m))
    # ---- @media inside mixin bodies (oracle only: the Lean media model has no mixins): a body used by two callers
    # and a plain rule used as a block-mixin must give what inlining gives
    nmix = 120 if tier == 'quick' else 2500
    mix_cases = []
    for k in range(nmix):
        body = rand_media_tree(rng, 1, rng.choice([2, 3, 4]), True, False)
        kind = k % 3
        if kind == 0:
            src = '@w: 7px;\n.mx() {\n%s}\n.c1 {\n  .mx();\n}\n.c2 {\n  .mx();\n  .mx();\n}\n' % render(body, rng, 1)
            equiv = [{'r': ['.c1'], 'b': body}, {'r': ['.c2'], 'b': body + body}]
        elif kind == 1:
            src = '@w: 7px;\n.base {\n%s}\n.c1 {\n  .base;\n}\n' % render(body, rng, 1)
            equiv = [{'r': ['.base'], 'b': body}, {'r': ['.c1'], 'b': body}]
        else:
            src = '@w: 7px;\n.c0 {\n  .mx();\n}\n.mx() {\n%s}\n@media print {\n  .c3 {\n    .mx();\n  }\n}\n' % render(body, rng, 1)
            equiv = [{'r': ['.c0'], 'b': body}, {'m': ['print'], 'b': [{'r': ['.c3'], 'b': body}]}]
        if '&' in json.dumps(body) or '"m": ["print"]' in json.dumps(body) or 'only' in json.dumps(body) or 'not' in json.dumps(body):
            continue
        mix_cases.append((src, equiv))
    mres = C.compile_many([(s_, dict(minify=True)) for s_, _e in mix_cases])
    for (src, equiv), r in zip(mix_cases, mres):
        chk.count(src, nontrivial=True)
        want = expected_of(equiv)
        if r[0] != 'ok':
            chk.violation({'kind': 'media-mixin-error', 'source': src, 'expected': want, 'actual': list(r[:3])})
            break
        got, nested = observed_of(r[1])
        # declarations of one rule may be split over several identical preludes by the inliner: compare per (media, selectors) in order
        if nested or got != want:
            merged = lambda L: [(a, b, c) for a, b, c in L]
            chk.violation({'kind': 'media-mixin', 'source': src, 'expected': want, 'actual': r[1]})
            if len(chk.violations) > 3:
                break
    chk.cov['media_in_mixin_cases'] = len(mix_cases)
    for k in (2, 60, len(sheets) - 1):
        chk.sample({'source': srcs[k], 'real': res[k][1] if res[k][0] == 'ok' else list(res[k][:3]), 'model': model[k]})
    C.replay_known(chk, PROP)
    chk.cov['disagreements_checked'] = len(disagreements)
    chk.cov['exhaustive'] = False
    chk.cov['catalogue'] = {'placements': len(catalogue()), 'random_trees': nrand}
    C.tie_verdict(chk, build, missing, disagreements, 'Lessm.Media.observe vs lesscpy',
                  'placement catalogue and random trees were run against the real code: no failing input')
    return chk.finish()


def replay(path):
    d = json.load(open(path))
    src = d.get('source')
    if not src:
        print('replay: nothing executable in', path)
        return 2
    r = C.real_compile(src, minify=True)
    print('source  :', src)
    print('actual  :', r)
    print('expected:', d.get('expected'))
    bad = True
    if r[0] == 'ok' and isinstance(d.get('expected'), list):
        got = []
        for ctx, sels, decls in canon.rules(r[1]):
            got.append([''.join(norm_media(c.replace('@media', '', 1)) for c in ctx), sorted(sels), [[p, v] for p, v, _ in decls]])
        bad = got != [[a, b, [list(x) for x in c]] for a, b, c in d['expected']]
    if bad:
        print('VIOLATION property=%s replay=%s' % (PROP, path))
        return 1
    print('replay: property holds on this input now')
    return 0
