"""
C03  Variables resolve lexically and no unresolved variable reaches the output.

Proof side : lean/Lessm/Props/C03.lean — model (two passes over the frame stack, lazy substitution) = lexical
             hoisted semantics under the decidable side condition VarOK.
Tie        : Lessm.Vars.compile against the real compiler on random programs: definitions at depth <= 5,
             shadowing at every level, chains <= 4, top-level redefinition and use-before-definition, uses in
             values and in selectors (.a-@{v}); a separate stream with one undefined reference.
             The driver also evaluates the spec and VarOK on every program (model = spec is re-checked on
             the sample, in addition to the theorem).
Oracle     : an independent Python implementation of the property's semantics (nearest enclosing block that
             defines the name, else the last top-level definition; values substituted recursively).
"""
import json
import random
import re

import common as C
import canon

PROP = 'C03'
NAMES = ['a', 'b', 'c', 'd', 'e', 'f']
WORDS = ['red', 'blue', 'solid', 'auto', 'none', 'bold', '1px', '2em', '10', '50%', 'x1', 'thin']
IDENTS = ['k', 'm2', 'zz', '7', 'q-r']
PROPS = ['color', 'width', 'margin', 'top', 'border', 'font-weight']


def rand_value(rng, names, p_ref=0.5, maxlen=3):
    n = rng.randrange(1, maxlen + 1)
    toks = []
    for i in range(n):
        if i:
            toks.append(['l', ' '])
        if names and rng.random() < p_ref:
            toks.append(['r', rng.choice(names)])
        else:
            toks.append(['l', rng.choice(WORDS)])
    return toks


def rand_body(rng, depth, maxdepth, names, inames, top=False):
    items = []
    n = rng.randrange(2, 6)
    for _ in range(n):
        r = rng.random()
        if r < 0.35:
            nm = rng.choice(names)
            items.append({'v': [nm, rand_value(rng, names, 0.35)]})
        elif r < 0.45 and inames:
            nm = rng.choice(inames)
            others = [x for x in inames if x != nm]
            # the value of a selector variable is an identifier, or (a chain) another selector variable
            items.append({'v': [nm, [['r', rng.choice(others)]] if others and rng.random() < 0.3 else [['l', rng.choice(IDENTS)]]]})
        elif r < 0.75 and not top:
            items.append({'d': [rng.choice(PROPS), rand_value(rng, names, 0.6)]})
        elif depth < maxdepth:
            sel = [['l', rng.choice(['.s', '.t', '.u', '#w', '.v-'])]]
            if inames and rng.random() < 0.35:
                sel = [['l', rng.choice(['.s-', '.p_', '.'])], ['i', rng.choice(inames)]]
                if rng.random() < 0.3:
                    sel.append(['l', '-z'])
            items.append({'r': sel, 'b': rand_body(rng, depth + 1, maxdepth, names, inames)})
        elif not top:
            items.append({'d': [rng.choice(PROPS), rand_value(rng, names, 0.6)]})
    return items


def acyclic(sheet):
    """no variable may reach itself through values of definitions of the same names (cycles are C20's subject:
    the pinned tree does not terminate on them)"""
    edges = {}

    def walk(items):
        for it in items:
            if 'v' in it:
                edges.setdefault(it['v'][0], set()).update(t[1] for t in it['v'][1] if t[0] == 'r')
            elif 'r' in it:
                walk(it['b'])
    walk(sheet)
    seen, stack = set(), set()

    def dfs(n):
        if n in stack:
            return False
        if n in seen:
            return True
        seen.add(n)
        stack.add(n)
        ok = all(dfs(m) for m in edges.get(n, ()))
        stack.discard(n)
        return ok
    return all(dfs(n) for n in list(edges))


def rand_program(rng):
    while True:
        p = rand_program0(rng)
        if acyclic(p):
            return p


def rand_program0(rng):
    names = rng.sample(NAMES, rng.randrange(2, 5))
    inames = rng.sample(['n', 'i1'], rng.randrange(0, 3))
    sheet = rand_body(rng, 0, rng.choice([1, 2, 3, 5]), names, inames, top=True)
    # make sure most names have a top-level definition somewhere (before or after the uses)
    for nm in names:
        if rng.random() < 0.8:
            pos = rng.randrange(0, len(sheet) + 1)
            sheet.insert(pos, {'v': [nm, rand_value(rng, [x for x in names if x != nm], 0.3, 2)]})
    for k, nm in enumerate(inames):
        pos = rng.randrange(0, len(sheet) + 1)
        chain = k > 0 and rng.random() < 0.4
        sheet.insert(pos, {'v': [nm, [['r', inames[0]]] if chain else [['l', rng.choice(IDENTS)]]]})
    return sheet


def render_value(v):
    return ''.join(('@' + t[1]) if t[0] == 'r' else t[1] for t in v)


def render(items, ind=0):
    pad = '  ' * ind
    out = []
    for it in items:
        if 'd' in it:
            out.append('%s%s: %s;' % (pad, it['d'][0], render_value(it['d'][1])))
        elif 'v' in it:
            out.append('%s@%s: %s;' % (pad, it['v'][0], render_value(it['v'][1])))
        else:
            sel = ''.join(('@{%s}' % t[1]) if t[0] == 'i' else t[1] for t in it['r'])
            out.append('%s%s {' % (pad, sel))
            out.append(render(it['b'], ind + 1))
            out.append('%s}' % pad)
    return '\n'.join(out)


# ---- independent oracle: the property's semantics (hoisted lexical lookup, recursive substitution)
class Unknown(Exception):
    pass


def hoist(items):
    f = {}
    for it in items:
        if 'v' in it:
            f[it['v'][0]] = it['v'][1]
    return f


def find(envs, n):
    for f in envs:
        if n in f:
            return f[n]
    raise Unknown(n)


def subst(envs, v, depth=0):
    if depth > 60:
        raise Unknown('cycle')
    out = []
    for t in v:
        if t[0] == 'r':
            out += subst(envs, find(envs, t[1]), depth + 1)
        else:
            out.append(t[1])
    return out


def oracle(items, envs, path, out):
    own = []
    for it in items:
        if 'd' in it:
            own.append((it['d'][0], canon.norm_value(''.join(subst(envs, it['d'][1])))))
        elif 'r' in it:
            # an interpolation is the fully substituted value of the variable (chains of variable-to-variable definitions included)
            sel = ''.join(''.join(subst(envs, [['r', t[1]]])) if t[0] == 'i' else t[1] for t in it['r'])
            sub = []
            decls = oracle(it['b'], [hoist(it['b'])] + envs, path + [sel], sub)
            if decls:
                out.append((' '.join(path + [sel]), decls))
            out.extend(sub)
    return own


def observe(css):
    return [(' '.join(sels) if False else ','.join(sels), [(p, v) for p, v, _i in decls]) for _ctx, sels, decls in canon.rules(css)]


def run(tier):
    chk = C.Check(PROP, tier, 'proof')
    rng = random.Random(C.seed() * 67867967 + 3)
    build = C.lean_build(PROP)
    import os
    audit = open(os.path.join(C.LEAN, 'Lessm', 'Audit', 'C03.lean')).read()
    theorems = ['Lessm.Vars.' + t for t in re.findall(r'#print axioms (\S+)', audit)]
    missing = chk.set_proof(build, theorems, 'cd lean && lake build Lessm.Props.C03 Lessm.Audit.C03 && lake env lean Lessm/Audit/C03.lean')
    chk.cov['trusted_base'] = C.TRUSTED_BASE
    chk.cov['rule'] = ('random programs: 2-4 value variables and 0-2 selector variables, blocks to depth 5, definitions and uses at every '
                       'level, shadowing, chains, top-level redefinition and use-before-definition; programs satisfying the decidable side '
                       'condition VarOK are checked against the property oracle and the model, the others against the model only; a second '
                       'stream injects one undefined reference. distinct by source text; non-trivial = at least one shadowing definition '
                       'or a variable whose value mentions a variable')
    n = 1500 if tier == 'quick' else 30000
    progs = [rand_program(rng) for _ in range(n)]
    # undefined-reference stream
    nund = n // 5
    und = []
    for _ in range(nund):
        p = rand_program(rng)
        p.append({'r': [['l', '.undef']], 'b': [{'d': ['color', [['l', 'red'], ['l', ' '], ['r', 'zzq']]]}]})
        und.append(p)
    allp = progs + und
    try:
        model = [json.loads(x) for x in C.Driver().run([('c03.run', json.dumps(p)) for p in allp])]
    except Exception as e:
        model = [None] * len(allp)
        build.ok = False
        build.log += '\nDRIVER: %r' % e
    srcs = [render(p) for p in allp]
    res = C.compile_many([(s, dict(minify=True)) for s in srcs])
    disagreements = []
    stats = {'varok': 0, 'not_varok': 0, 'errors_expected': 0, 'model_spec_mismatch_under_varok': 0}
    for i, (p, src, r) in enumerate(zip(allp, srcs, res)):
        m = model[i]
        shadow = src.count('@') > 3 and re.search(r'\{[^{}]*@\w+:', src, re.S) is not None
        chain = re.search(r'@\w+:\s*[^;]*@\w', src) is not None
        chk.count(src, nontrivial=bool(shadow or chain))
        varok = bool(m and m.get('varok'))
        stats['varok' if varok else 'not_varok'] += 1
        if m is not None and varok and m['model'] != m['spec']:
            stats['model_spec_mismatch_under_varok'] += 1
            disagreements.append(('model != spec under VarOK (the theorem says this cannot happen)', src, m))
        # real observation
        if r[0] == 'ok':
            real = ('ok', observe(r[1]))
        else:
            mm = re.search(r'Unknown (?:escaped )?variable @\{?(\w+)', r[2])
            real = ('err', mm.group(1) if mm else r[1], 'CompilationError' in r[3])
        # model observation
        if m is not None:
            if isinstance(m['model'], dict):
                mobs = ('err', m['model']['err'].replace('unknown ', ''), True)
            else:
                mobs = ('ok', [(' '.join(path), [(a, canon.norm_value(b)) for a, b in d]) for path, d in m['model']])
        else:
            mobs = None
        # property oracle (only inside the side condition)
        if varok:
            try:
                out = []
                oracle(p, [hoist(p)], [], out)
                want = ('ok', out)
            except Unknown as e:
                want = ('err', str(e), True)
            # on failure the property asks for a compilation error; which of several undefined names is
            # reported is not part of it (the model-vs-code correspondence below still compares the name)
            ok = (real[0] == want[0]) and (real[1] == want[1] if real[0] == 'ok' else real[2])
            if want[0] == 'err':
                stats['errors_expected'] += 1
            if not ok:
                chk.violation({'kind': 'vars', 'source': src, 'expected': list(want), 'actual': list(real) if real[0] == 'err' else r[1], 'model': m})
                if len(chk.violations) > 5:
                    break
                continue
        if mobs is not None:
            same = (mobs[0] == real[0]) and (mobs[1] == real[1] if mobs[0] == 'ok' else mobs[1] == real[1])
            if not same:
                disagreements.append((src, mobs, real if real[0] == 'err' else r[1]))
    for k in (0, 7, len(progs) + 1):
        chk.sample({'source': srcs[k], 'real': res[k][1] if res[k][0] == 'ok' else list(res[k][:3]), 'model': model[k]})
    # ---- the indirection @@p: the name held by @p is itself looked up lexically from the place of use, wherever @p was found
    #      (seeded C03-5: target looked up from the pointer's frame); expected values written out
    ind = []
    for q in ('"c"', "'c'"):     # (an unquoted name is reported as an illegal indirection: LESS wants a string here)
        ind += [('@p: %s; @c: red; .a { @c: blue; x: @@p; }' % q, '.a{x:blue;}'),
                ('@p: %s; @c: red; .a { .b { @c: blue; x: @@p; } y: @@p; }' % q, '.a{y:red;}\n.a .b{x:blue;}'),
                ('@p: %s; .a { @c: blue; x: @@p; }' % q, '.a{x:blue;}'),
                ('@c: red; .a { @p: %s; .b { @c: green; x: @@p; } }' % q, '.a .b{x:green;}'),
                ('.a { @p: %s; @c: blue; x: @@p; } @c: red;' % q, '.a{x:blue;}'),
                ('@p: %s; @c: red; .a { x: @@p; }' % q, '.a{x:red;}'),
                ('@p: %s; @c: red; .m(@c) { x: @@p; } .a { .m(blue); }' % q, '.a{x:blue;}')]
    # (selectors rooted late - the interpolated variable is defined further down - inside @media blocks of rules: repaired C03-interp-in-media)
    ind += [('.a { @media print { .@{v} {x:y} } } @v: k;', '@media print{.a .k{x:y;}}'),
            ('.a { .b { @media print { @media (color) { .@{v} {x:y} } } } } @v: k;', '@media print and (color){.a .b .k{x:y;}}'),
            ('@media print { .@{v} {x:y} } @v: k;', '@media print{.k{x:y;}}'),
            ('.a { @media print { .@{v} {x:y} z:w } .c{d:e} } @v: k;', '.a .c{d:e;}\n@media print{.a{z:w;}\n.a .k{x:y;}}')]
    ires = C.compile_many([(a_, dict(minify=True)) for a_, _w in ind])
    for (a_, want), r in zip(ind, ires):
        chk.count(('indirection', a_), nontrivial=True)
        if r[0] != 'ok' or r[1].strip() != want:
            chk.violation({'kind': 'indirection', 'source': a_, 'expected': want, 'actual': r[1] if r[0] == 'ok' else list(r[:3])})
            if len(chk.violations) > 5:
                break
    stats['indirection_cases'] = len(ind)
    C.replay_known(chk, PROP)
    chk.cov['disagreements_checked'] = len(disagreements)
    chk.cov['exhaustive'] = False
    chk.cov['distribution'] = stats
    C.tie_verdict(chk, build, missing, disagreements, 'Lessm.Vars.compile vs lesscpy',
                  'random programs inside VarOK were run against the property oracle: no failing input')
    return chk.finish()


def replay(path):
    d = json.load(open(path))
    src = d.get('source')
    if not src:
        print('replay: nothing executable in', path)
        return 2
    r = C.real_compile(src, minify=True)
    print('source  :', src)
    print('actual  :', r)
    print('expected:', d.get('expected'))
    exp = d.get('expected')
    if r[0] == 'ok':
        bad = not (exp and exp[0] == 'ok' and [[a, [list(x) for x in b]] for a, b in observe(r[1])] == [[a, [list(x) for x in b]] for a, b in exp[1]])
    else:
        bad = not (exp and exp[0] == 'err' and 'CompilationError' in r[3])
    if bad:
        print('VIOLATION property=%s replay=%s' % (PROP, path))
        return 1
    print('replay: property holds on this input now')
    return 0
