"""
Correspondence of the character-level front end model (lean/Lessm/Model/Regex.lean, Lex0.lean, rules regenerated into
lean/Lessm/Gen/LexRules.lean) with the real lexer and parser, on TEXT:

  raw      ply's token loop alone (lexer.lexer.token()):  type, value, line, lexer state and in_property_decl after each token
  filtered LessLexer.token() as the parser calls it:       type, value, line
  parse    accept / first error token of the LALR driver on the regenerated tables  vs  the parser's first syntax error

Corpus: every .less file below test/ (fixtures, issues, bootstrap3), the source pools of other checks, and random
character-level damage of those (deletions, insertions of delimiters and odd characters, truncation).
"""
import glob
import io
import json
import os
import random
import re

import common as C


def corpus(rng, tier):
    texts = []
    for pat in ('test/less/*.less', 'test/less/issues/*.less', 'test/less/imports/*.less', 'test/bootstrap3/less/*.less'):
        for p in sorted(glob.glob(os.path.join(C.REPO, pat))):
            try:
                t = open(p, encoding='utf-8').read()
            except Exception:
                continue
            if len(t) < 40000:
                texts.append((os.path.relpath(p, C.REPO), t))
    small = [
        '.a{color:red; width:1px + @w}\n@media print{.b-@{x}{top:0}}', '.a{top:1px', '@a: "x@{b}y";\n.c{d:~"e@{f}g"; h:url(http://x/y.png)}',
        '.m(@a; @b: 2) when (@a > 1) and not (@b = 2), (iscolor(@a)){x:@arguments}', 'a:hover, b > c + d ~ e{f:g !important}',
        '@import "a.css" screen and (min-width: 10px);\n@import url(b.less);', '.a{filter:progid:DXImageTransform.Microsoft.gradient(startColorstr=\'#80000000\', endColorstr=\'#80000000\');}',
        '@media screen and (-webkit-min-device-pixel-ratio: 2), (min-resolution: 192dpi){.x{y:z}}', '.x{width:~`js`}', '.a { .b; }\n.c { .d(); }',
        '#abc{color:#abcdef; x:#ab} #main .e{f:#12}', '.a{b:c}}', '.a{{b:c}', 'é{x:y}', '.a{x:"unterminated}', '.a{x:\'a@{b}c\' d}', '$x{y:z}', '.a{x:1 ^ 2}',
        '.a{.undefined;}\n.c{.alsoundefined;}', '.a{.q;}\n.c{.a .z;}', '.a{.q; .r();}\n.b{.a;}\n.c{.b .q;}',
        '.c{left:-(1 ) * -(1 + 1)}', '.c{f:%("rgb(%d, %#d, %d)", 1, 2, 3)}', '.c{f:%("%d %d", 1)}', '.c{f:%("100% %d", 1)}',
        '.a{t: f(, 1)}', '.a{t: darken(#fff)}', '.a{t: round()}', '.a{t: mix(#fff)}', '.a{t: escape()}', '.a{t: darken(, 10%)}',
        '.m(@i){.s-@{i}{top:0}}\n.a{.m(@i: 3);}', '.m(@i){.n-@{i}{top:0}}\n.m(@i: 7);',
        '@x: 1px 2px;\n.a{w:@x + 1}', '@x: 1px 2px;\n.m() when (@x > 1){t:0}\n.a{.m;}', '@b: 5px;\n@a: @b;\n.x{w:@@a}', '@b: 5px;\n@a: (1 + 1);\n.x{w:@@a}',
        '.a{w:5/0px}', '@z: 0;\n.a{w:5/@z}', '.a{w:(5px / 0px)}',
        '.a{-@v: 1px}', '-@v: 1px;\n.a{top:0}', '.a{--@bg: #e0e0e0;}',
        '.a:not(.b):nth-child(2n+1){x:y}', '.a[href^="http"]{x:y}', '@font-face{font-family:x}', '.a{x:@@y; z:@{w}}', '--x{--y:1}', '.a{-moz-x:1;--v:2}',
        '@keyframes k{from{a:b}50%{c:d}to{e:f}}', '.a{width:calc(100% - 10px)}', '.a{b:e("%d", 1) %("%s", x)}', '/* c */ // d\n.a{/* e */b:c // f\n}',
        '.a\n{\n  b\n:\nc\n;\n}', '\t.a\t{\tb\t:\tc\t}\t', '.a{b:c;;}', '', ' ', '\n\n', '.a{b:!important}', '.a{b: ! important}',
    ]
    texts += [('small%d' % i, t) for i, t in enumerate(small)]
    base = list(texts)
    n = 150 if tier == 'quick' else 4000
    for k in range(n):
        name, t = rng.choice(base)
        if len(t) > 3000:
            a = rng.randrange(0, len(t) - 1500)
            t = t[a:a + rng.randrange(50, 1500)]
        if not t:
            continue
        ops = rng.randrange(1, 4)
        for _ in range(ops):
            r = rng.random()
            i = rng.randrange(len(t) + 1)
            if r < 0.35 and t:
                j = min(len(t), i + rng.randrange(1, 4))
                t = t[:i] + t[j:]
            elif r < 0.75:
                t = t[:i] + rng.choice(['{', '}', ';', ':', '"', "'", '(', ')', '@', '~', '&', '.', '#', ' ', '\n', '/*', '*/', '//', '$', '^', '`', '\\', '%', ',', '!', '-', '--']) + t[i:]
            else:
                t = t[:i]
        texts.append(('%s~%d' % (name, k), t))
    return texts


def real_streams(text):
    """(raw tokens, filtered tokens, parse verdict) of the real front end"""
    C.use_repo()
    from lesscpy.lessc import lexer
    import lesscpy
    raw, raw_end = [], 'ok'
    try:
        lx = lexer.LessLexer()
        lx.lexer.input(text)
        while True:
            t = lx.lexer.token()
            if not t:
                break
            raw.append([t.type, t.value, t.lineno, lx.lexer.lexstate, bool(lx.lexer.in_property_decl)])
    except SyntaxError as e:
        raw_end = 'illegal ' + str(e)
    except BaseException as e:  # noqa
        raw_end = 'exc %s: %s' % (type(e).__name__, str(e)[:100])
    flt, flt_end = [], 'ok'
    try:
        lx = lexer.LessLexer()
        lx.input(io.StringIO(text))
        while True:
            t = lx.token()
            if not t:
                break
            flt.append([t.type, t.value, t.lineno])
    except SyntaxError as e:
        flt_end = 'illegal ' + str(e)
    except BaseException as e:  # noqa
        flt_end = 'exc %s: %s' % (type(e).__name__, str(e)[:100])
    r = C.real_compile(text, minify=True)
    if r[0] == 'err':
        try:                                   # the whole message (real_compile keeps 400 characters)
            import lesscpy as _l
            _l.compile(io.StringIO(text), minify=True)
        except BaseException as e:  # noqa
            r = (r[0], r[1], str(e), r[3])
    if r[0] == 'ok':
        verdict = ['accept', None]
    elif r[0] == 'err':
        m = re.search(r'line: (\d+), Syntax Error, token: `([^`]*)`', r[2])
        if m:
            verdict = ['error', [m.group(2), int(m.group(1))]]
        elif 'unexpected end of input' in r[2]:
            verdict = ['error', ['eof', None]]
        elif 'Illegal character' in r[2]:
            verdict = ['illegal', r[2][:80]]
        elif 'SyntaxError' in r[3]:
            verdict = ['accept', r[1] + ': ' + r[2][:80]]       # an evaluation error: the text was accepted by the parser
        else:
            verdict = ['escaped', r[1] + ': ' + r[2][:200]]     # neither a result nor a CompilationError / SyntaxError
    else:
        verdict = ['timeout', None]
    return raw, raw_end, flt, flt_end, verdict


def _job(text):
    return real_streams(text)


def run(chk, rng, tier, want=('raw', 'filtered', 'parse')):
    """returns (number of texts, disagreements)"""
    texts = corpus(rng, tier)
    res = C.pool().map(_job, [t for _n, t in texts], chunksize=4)
    lines = []
    for _n, t in texts:
        payload = json.dumps(t)
        lines.append(('c12.lex0', payload))
        lines.append(('c15.text', payload))
    try:
        ans = C.Driver().run(lines)
    except Exception as e:
        return len(texts), [{'front': 'driver failed: %r' % e}], []
    dis = []
    stats = {'texts': len(texts), 'raw_tokens': 0, 'illegal': 0, 'parse_accept': 0, 'parse_error': 0, 'parse_compared': 0}
    for k, ((name, text), (raw, raw_end, flt, flt_end, verdict)) in enumerate(zip(texts, res)):
        try:
            mraw = json.loads(ans[2 * k])
            mflt = json.loads(ans[2 * k + 1])
        except Exception:
            dis.append({'front': 'driver answer not JSON', 'name': name, 'answer': ans[2 * k][:200]})
            continue
        stats['raw_tokens'] += len(raw)
        if 'raw' in want:
            mtoks = [[a, b, c, d, e] for a, b, c, d, e in mraw.get('toks', [])]
            mend = 'ok' if 'illegal' not in mraw and 'stuck' not in mraw else ('illegal' if 'illegal' in mraw else 'stuck')
            rend = 'ok' if raw_end == 'ok' else ('illegal' if raw_end.startswith('illegal') else raw_end)
            if mtoks != raw or mend != rend:
                i = next((j for j, (x, y) in enumerate(zip(mtoks, raw)) if x != y), min(len(mtoks), len(raw)))
                dis.append({'front': 'raw token stream', 'name': name, 'text': text[:600], 'at': i, 'model': mtoks[max(0, i - 1):i + 2], 'real': raw[max(0, i - 1):i + 2],
                            'model_end': mend, 'real_end': raw_end})
                continue
            if mend == 'illegal':
                stats['illegal'] += 1
                want_msg = "Illegal character '%s' line %d" % (mraw['illegal'], mraw['line'])
                if want_msg not in raw_end:
                    dis.append({'front': 'illegal character', 'name': name, 'text': text[:600], 'model': want_msg, 'real': raw_end})
                    continue
        if 'filtered' in want:
            mt = mflt.get('toks', [])
            if flt_end == 'ok' and (mt != flt or mflt.get('lex') != 'ok'):
                i = next((j for j, (x, y) in enumerate(zip(mt, flt)) if x != y), min(len(mt), len(flt)))
                dis.append({'front': 'filtered token stream', 'name': name, 'text': text[:600], 'at': i, 'model': mt[max(0, i - 1):i + 2], 'real': flt[max(0, i - 1):i + 2],
                            'model_lex': mflt.get('lex')})
                continue
        if 'parse' in want and flt_end == 'ok' and mflt.get('lex') == 'ok' and verdict[0] in ('accept', 'error'):
            mp = mflt.get('parse', '')
            stats['parse_compared'] += 1
            # A syntax error can also come from a grammar action raising SyntaxError (an unknown mixin at parse time, ...), which ply
            # turns into error recovery: the LALR driver alone cannot know those.  Compared therefore:
            #   parser accepts            => the driver accepts
            #   driver rejects at token k => the parser reports a syntax error too (the same token, unless an action failed earlier)
            if mp == 'accept':
                stats['parse_accept'] += 1
                if verdict[0] == 'error':
                    stats['action_errors'] = stats.get('action_errors', 0) + 1
            elif mp.startswith('error'):
                stats['parse_error'] += 1
                parts = mp.split()
                mtok = parts[2] if len(parts) > 2 else 'eof'
                mline = int(parts[3]) if len(parts) > 3 else None
                if verdict[0] != 'error':
                    dis.append({'front': 'parse verdict', 'name': name, 'text': text[:600], 'model': mp, 'real': verdict})
                elif verdict[1][0] == mtok and (mline is None or verdict[1][1] == mline):
                    stats['same_first_error'] = stats.get('same_first_error', 0) + 1
                else:
                    stats['other_first_error'] = stats.get('other_first_error', 0) + 1
                    chk.cov.setdefault('front_end_other_first_error', [])
                    if len(chk.cov['front_end_other_first_error']) < 5:
                        chk.cov['front_end_other_first_error'].append({'name': name, 'model': mp, 'real': verdict})
            else:
                dis.append({'front': 'parse verdict', 'name': name, 'text': text[:600], 'model': mp, 'real': verdict})
    chk.cov.setdefault('front_end_on_text', {}).update(stats)
    escapes = [{'name': name, 'source': text, 'exception': v[1]} for (name, text), (_a, _b, _c, _d, v) in zip(texts, res) if v[0] in ('escaped', 'timeout')]
    chk.cov['front_end_on_text']['escaped_exceptions'] = len(escapes)
    return len(texts), dis, escapes
