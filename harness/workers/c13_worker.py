"""
Worker of the C13 check: runs one history of compile calls in this (fresh) interpreter and prints the results as JSON.
stdin: {"repo": path, "history": [[source, options, mode], ...], "threads": n, "scratch": dir}
  mode 'stream' -> io.StringIO, 'file' -> the source is written to <scratch>/in<i>.less and passed as an open file
  threads > 1  -> the history is dealt round-robin to n threads that compile concurrently
stdout: {"results": [[kind, text], ...]} in history order; kind 'ok' | 'err:<ExceptionClass>'
"""
import io
import json
import os
import sys
import threading
import warnings

warnings.simplefilter('ignore')
job = json.load(sys.stdin)
sys.path.insert(0, job['repo'])
import lesscpy  # noqa: E402


def one(i, src, opt, mode):
    try:
        if mode == 'file':
            p = os.path.join(job['scratch'], 'in%d_%d.less' % (os.getpid(), i))
            with open(p, 'w') as f:
                f.write(src)
            try:
                with open(p) as fh:
                    out = lesscpy.compile(fh, **opt)
            finally:
                os.unlink(p)
        else:
            out = lesscpy.compile(io.StringIO(src), **opt)
        return ['ok', out]
    except BaseException as e:  # noqa
        if isinstance(e, (KeyboardInterrupt, SystemExit)):
            raise
        msg = str(e)
        if mode == 'file':
            msg = msg.replace(p, '(stream)')
        msg = msg.replace(os.path.realpath(os.getcwd()), '<cwd>').replace(os.getcwd(), '<cwd>')   # the working directory is not an input
        return ['err:' + type(e).__name__, msg[:1000]]


hist = job['history']
res = [None] * len(hist)
n = int(job.get('threads', 1))
if n <= 1:
    for i, (src, opt, mode) in enumerate(hist):
        res[i] = one(i, src, opt, mode)
else:
    def work(k):
        for i in range(k, len(hist), n):
            src, opt, mode = hist[i]
            res[i] = one(i, src, opt, mode)
    ts = [threading.Thread(target=work, args=(k,)) for k in range(n)]
    for t in ts:
        t.start()
    for t in ts:
        t.join()
json.dump({'results': res, 'yacctab_importable': __import__('importlib').util.find_spec('lesscpy.lessc.yacctab') is not None}, sys.stdout)
