"""./check <Cxx> [--tier quick|thorough] [--replay file]  -> dispatch to harness/checks/<Cxx>.py"""
import argparse
import importlib
import os
import sys
import traceback

sys.path.insert(0, os.path.dirname(os.path.abspath(__file__)))


def main():
    ap = argparse.ArgumentParser()
    ap.add_argument('prop')
    ap.add_argument('--tier', default=os.environ.get('VERIF_TIER', 'quick'))
    ap.add_argument('--replay', default=None)
    a = ap.parse_args()
    try:
        mod = importlib.import_module('checks.' + a.prop)
    except ImportError as e:
        print('no check for %s: %s' % (a.prop, e))
        return 2
    try:
        if a.replay:
            return mod.replay(a.replay)
        return mod.run(a.tier)
    except Exception:
        traceback.print_exc()
        print('HARNESS-ERROR property=%s (not a violation)' % a.prop)
        return 2


if __name__ == '__main__':
    sys.exit(main())
