"""
Shared machinery of the checks: locating /repo, building the Lean project, talking to the model
driver, calling the real compiler, writing evidence / replay files, known findings.

Everything here runs offline.  Random choices derive from VERIF_SEED only.
"""
from __future__ import annotations

import fcntl
import hashlib
import io
import json
import os
import re
import subprocess
import sys
import time
import multiprocessing as mp

VERIF = os.path.dirname(os.path.dirname(os.path.abspath(__file__)))
REPO = os.environ.get('VERIF_REPO', '/repo')
LEAN = os.path.join(VERIF, 'lean')
PY = os.environ.get('VERIF_PY', '/venv/bin/python')
DRIVER = os.path.join(LEAN, '.lake', 'build', 'bin', 'driver')
EVID = os.path.join(VERIF, 'evidence')
REPLAY = os.path.join(EVID, 'replay')
NPROC = int(os.environ.get('VERIF_NPROC', '16'))

ALLOWED_AXIOMS = {'propext', 'Classical.choice', 'Quot.sound'}
FORBIDDEN = re.compile(r'\b(sorry|admit|native_decide|bv_decide|implemented_by|unsafe)\b|^\s*axiom\s|maxHeartbeats\s+0')


def seed() -> int:
    try:
        return int(os.environ.get('VERIF_SEED', '0'))
    except ValueError:
        return 0


def use_repo():
    """Make `import lesscpy` resolve to the working tree of /repo."""
    if REPO not in sys.path:
        sys.path.insert(0, REPO)
    os.environ.setdefault('LESSCPY_VERIF', '1')


# ---------------------------------------------------------------------------------------------
# Lean side
# ---------------------------------------------------------------------------------------------

class BuildResult:
    def __init__(self, ok, log, failed_modules=(), axioms=None, audit_problems=()):
        self.ok = ok
        self.log = log
        self.failed_modules = list(failed_modules)
        self.axioms = axioms or {}
        self.audit_problems = list(audit_problems)


def _lock():
    os.makedirs(os.path.join(LEAN, '.lake'), exist_ok=True)
    f = open(os.path.join(LEAN, '.lake', 'verif.lock'), 'w')
    fcntl.flock(f, fcntl.LOCK_EX)
    return f


def strip_comments(src: str) -> str:
    """Remove Lean block comments (nested) and line comments, for the forbidden-word audit."""
    out = []
    i, depth, n = 0, 0, len(src)
    while i < n:
        if src.startswith('/-', i):
            depth += 1
            i += 2
        elif depth and src.startswith('-/', i):
            depth -= 1
            i += 2
        elif depth:
            i += 1
        elif src.startswith('--', i):
            while i < n and src[i] != '\n':
                i += 1
        else:
            out.append(src[i])
            i += 1
    return ''.join(out)


def grep_forbidden():
    """sorry/admit/axiom/native_decide/... outside comments, anywhere in the Lean project."""
    hits = []
    for root, _dirs, files in os.walk(LEAN):
        if '.lake' in root:
            continue
        for fn in files:
            if fn.endswith('.lean'):
                p = os.path.join(root, fn)
                body = strip_comments(open(p, encoding='utf-8').read())
                for ln, line in enumerate(body.split('\n'), 1):
                    if FORBIDDEN.search(line):
                        hits.append('%s:%d: %s' % (os.path.relpath(p, LEAN), ln, line.strip()[:120]))
    return hits


def run_extract():
    """Regenerate lean/Lessm/Gen/*.lean from the working tree of /repo (translator)."""
    r = subprocess.run([PY, os.path.join(VERIF, 'harness', 'extract.py')], capture_output=True, text=True,
                       env=dict(os.environ, VERIF_REPO=REPO), timeout=600)
    return r.returncode == 0, (r.stdout + r.stderr)


def lean_build(prop: str, theorems_module: str | None = None, need_driver=True, extract=True) -> BuildResult:
    """extract -> lake build (property module + driver) -> audit.  Serialised by a file lock."""
    if os.environ.get('VERIF_DEV_SKIP_LEAN') == '1':   # development aid only; never set by registered commands
        return BuildResult(True, 'lean skipped (dev)', [], {}, [])
    lk = _lock()
    try:
        log = []
        if extract:
            ok, elog = run_extract()
            log.append(elog)
            if not ok:
                return BuildResult(False, 'EXTRACT FAILED\n' + elog, ['extract'])
        targets = []
        mod = theorems_module or ('Lessm.Props.%s' % prop)
        targets.append(mod)
        targets.append('Lessm.Audit.%s' % prop)
        if need_driver:
            targets.append('driver')
        r = subprocess.run(['lake', 'build'] + targets, cwd=LEAN, capture_output=True, text=True, timeout=3000)
        out = r.stdout + r.stderr
        log.append(out)
        if r.returncode != 0:
            failed = re.findall(r'✖ \[\d+/\d+\] (?:Building|Built) (\S+)', out) or re.findall(r'error: (\S+\.lean)', out)
            return BuildResult(False, '\n'.join(log), failed or ['lake build'])
        # audit: #print axioms output of the Audit module (replayed from the build log or re-run)
        a = subprocess.run(['lake', 'env', 'lean', os.path.join('Lessm', 'Audit', prop + '.lean')], cwd=LEAN,
                           capture_output=True, text=True, timeout=1800)
        axioms = {}
        problems = []
        txt = a.stdout + a.stderr
        if a.returncode != 0:
            problems.append('audit file does not check: ' + txt[-400:])
        for m in re.finditer(r"'([^']+)' depends on axioms: \[([^\]]*)\]", txt, re.S):
            axs = [x.strip() for x in m.group(2).replace('\n', ' ').split(',') if x.strip()]
            axioms[m.group(1)] = axs
            bad = [x for x in axs if x not in ALLOWED_AXIOMS]
            if bad:
                problems.append('%s uses axioms %s' % (m.group(1), bad))
        for m in re.finditer(r"'([^']+)' does not depend on any axioms", txt):
            axioms[m.group(1)] = []
        hits = grep_forbidden()
        problems.extend('forbidden: ' + h for h in hits)
        log.append(txt)
        return BuildResult(not problems, '\n'.join(log), [], axioms, problems)
    finally:
        lk.close()


class Driver:
    """Batch interface to the compiled model driver (lean_exe `driver`)."""

    def __init__(self):
        if not os.path.exists(DRIVER):
            raise RuntimeError('driver not built: ' + DRIVER)

    def run(self, lines):
        """lines: list of (op, payload) -> list of answer strings (same length)."""
        if not lines:
            return []
        data = ''.join('%s\t%s\n' % (op, payload) for op, payload in lines)
        for _op, payload in lines:
            if '\n' in payload or '\t' in payload:
                raise ValueError('payload must be a single line without tabs: %r' % payload[:50])
        r = subprocess.run([DRIVER], input=data, capture_output=True, text=True, timeout=3000)
        if r.returncode != 0:
            raise RuntimeError('driver failed: ' + r.stderr[-500:])
        out = r.stdout.split('\n')
        if out and out[-1] == '':
            out.pop()
        if len(out) != len(lines):
            raise RuntimeError('driver answered %d lines for %d requests' % (len(out), len(lines)))
        return out


# ---------------------------------------------------------------------------------------------
# Real implementation
# ---------------------------------------------------------------------------------------------

class HarnessTimeout(BaseException):
    pass


def _alarm(_sig, _frm):
    raise HarnessTimeout()


COMPILE_TIMEOUT = float(os.environ.get('VERIF_COMPILE_TIMEOUT', '20'))


def real_compile(src: str, minify=True, xminify=False, tabs=False, spaces=True, timeout=None):
    """In-process lesscpy.compile on text.  Returns ('ok', css) | ('err', class_name, message, mro) |
    ('timeout', seconds, text, mro): every call runs under a wall-clock bound so a non-terminating
    compilation cannot wedge the harness."""
    use_repo()
    import lesscpy
    import signal
    import threading
    t = timeout or COMPILE_TIMEOUT
    use_alarm = threading.current_thread() is threading.main_thread()
    if use_alarm:
        old = signal.signal(signal.SIGALRM, _alarm)
        signal.setitimer(signal.ITIMER_REAL, t)
    try:
        return ('ok', lesscpy.compile(io.StringIO(src), minify=minify, xminify=xminify, tabs=tabs, spaces=spaces))
    except HarnessTimeout:
        return ('timeout', t, 'no result within %.0f s' % t, ['HarnessTimeout'])
    except BaseException as e:  # noqa: the harness classifies every escape
        if isinstance(e, (KeyboardInterrupt, SystemExit)):
            raise
        return ('err', type(e).__name__, str(e)[:400], [c.__name__ for c in type(e).__mro__])
    finally:
        if use_alarm:
            signal.setitimer(signal.ITIMER_REAL, 0)
            signal.signal(signal.SIGALRM, old)


def _compile_job(job):
    src, opts = job
    return real_compile(src, **opts)


_POOL = None


def pool():
    global _POOL
    if _POOL is None:
        use_repo()
        _POOL = mp.get_context('fork').Pool(NPROC)
    return _POOL


def compile_many(jobs):
    """jobs: list of (src, opts dict) -> results in order, computed on NPROC processes."""
    if len(jobs) <= 2:
        return [_compile_job(j) for j in jobs]
    return pool().map(_compile_job, jobs, chunksize=max(1, len(jobs) // (NPROC * 4)))


RULE_RE = re.compile(r'\.c(\d+)\{[a-z-]+:([^}]*?);?\}')


def compile_cases(cases, render, opts=None, chunk=1500):
    """Batch many one-rule cases `.c<i>{prop:VALUE}` into few stylesheets.
    render(i, case) -> LESS text that yields exactly one rule named .c<i> with one declaration.
    Returns (dict i -> value text, list of (i, error result)).  A failing batch is re-run case by case."""
    opts = opts or dict(minify=True)
    jobs, spans = [], []
    for s in range(0, len(cases), chunk):
        part = cases[s:s + chunk]
        jobs.append(('\n'.join(render(s + j, c) for j, c in enumerate(part)), opts))
        spans.append((s, len(part)))
    res = compile_many(jobs)
    out, errs = {}, []
    for (s, n), r in zip(spans, res):
        if r[0] == 'ok':
            for m in RULE_RE.finditer(r[1]):
                out[int(m.group(1))] = m.group(2).strip()
        else:
            single = compile_many([(render(s + j, cases[s + j]), opts) for j in range(n)])
            for j, rr in enumerate(single):
                if rr[0] == 'ok':
                    m = RULE_RE.search(rr[1])
                    if m:
                        out[s + j] = m.group(2).strip()
                else:
                    errs.append((s + j, rr))
    return out, errs


def shrink_tree(sheet, fails, max_evals=1500):
    """Greedy shrinking of a JSON item tree (list of items; an item with a body has key 'b').
    `fails(sheet) -> bool` re-runs the failing comparison.  Tries: delete an item, hoist a body in
    place of its block.  Returns the smallest failing sheet found."""
    import copy
    evals = [0]

    def paths(items, prefix=()):
        for i, it in enumerate(items):
            yield prefix + (i,)
            if isinstance(it, dict) and 'b' in it:
                for p in paths(it['b'], prefix + (i,)):
                    yield p

    def get_parent(root, path):
        items = root
        for i in path[:-1]:
            items = items[i]['b']
        return items

    cur = copy.deepcopy(sheet)
    progress = True
    while progress and evals[0] < max_evals:
        progress = False
        for path in sorted(paths(cur), key=lambda p: (-len(p), p)):
            if evals[0] >= max_evals:
                break
            for mode in ('delete', 'hoist'):
                cand = copy.deepcopy(cur)
                try:
                    parent = get_parent(cand, path)
                    it = parent[path[-1]]
                except (IndexError, KeyError, TypeError):
                    break
                if mode == 'delete':
                    del parent[path[-1]]
                else:
                    if not (isinstance(it, dict) and 'b' in it and len(path) > 1):
                        continue
                    parent[path[-1]:path[-1] + 1] = it['b']
                if not cand:
                    continue
                evals[0] += 1
                try:
                    bad = fails(cand)
                except Exception:
                    bad = False
                if bad:
                    cur = cand
                    progress = True
                    break
            if progress:
                break
    return cur


def replay_known(chk, prop, opts=None):
    """Replay every open known finding of `prop` verbatim against the real code: still failing -> KNOWN-FINDING line."""
    for f in known_findings(prop):
        r = real_compile(f['input'], **(opts or dict(minify=True)))
        if f.get('expect_error'):
            still = not (r[0] == 'err' and any(c in ('CompilationError', 'SyntaxError') for c in r[3]))
        else:
            still = not (r[0] == 'ok' and f['expected_fragment'] in r[1])
        if still:
            chk.known('%s: %s (input %r gives %s)' % (f.get('id', '?'), f['what'], f['input'], r[1] if r[0] == 'ok' else list(r[1:3])))
        else:
            chk.cov.setdefault('known_findings_no_longer_failing', []).append(f.get('id'))


def tie_verdict(chk, build, missing, disagreements, what, searched):
    """Common ending: a broken proof obligation / driver / correspondence with no failing input found."""
    if chk.violations:
        return
    if (not build.ok) or missing:
        chk.violation({'kind': 'proof-obligation', 'broken': missing or build.failed_modules,
                       'audit': build.audit_problems, 'log_tail': build.log[-2500:], 'search': searched},
                      'no-failing-input-found')
    elif disagreements:
        chk.violation({'kind': 'correspondence', 'broken': what, 'disagreements': disagreements[:10],
                       'note': 'model and implementation differ but the property oracle accepts the implementation',
                       'search': searched}, 'no-failing-input-found')


def close_pool():
    global _POOL
    if _POOL is not None:
        _POOL.close()
        _POOL.join()
        _POOL = None


# ---------------------------------------------------------------------------------------------
# Known findings, evidence, verdicts
# ---------------------------------------------------------------------------------------------

def known_findings(prop: str):
    p = os.path.join(VERIF, 'known_findings.json')
    if not os.path.exists(p):
        return []
    data = json.load(open(p))
    return [f for f in data.get('findings', []) if f.get('property') == prop and f.get('status') == 'open']


def write_replay(prop: str, payload: dict) -> str:
    os.makedirs(REPLAY, exist_ok=True)
    body = json.dumps(payload, indent=1, sort_keys=True, default=str)
    h = hashlib.sha1(body.encode()).hexdigest()[:10]
    path = os.path.join(REPLAY, '%s-%s.json' % (prop, h))
    with open(path, 'w') as f:
        f.write(body)
    return os.path.relpath(path, VERIF)


class Check:
    """Collects what a run covered and produces the evidence file and the verdict."""

    def __init__(self, prop: str, tier: str, level: str = 'proof'):
        self.prop = prop
        self.tier = tier if tier in ('quick', 'thorough') else 'quick'
        self.level = level
        self.t0 = time.time()
        self.violations = []      # (replay_path, suffix)
        self.known_printed = []
        self.cov = {
            'evaluations': 0, 'distinct_nontrivial': 0, 'rule': '', 'samples': [],
            'obligations': 0, 'discharged': 0, 'checker_cmd': '', 'trusted_base': [],
            'disagreements_checked': 0, 'exhaustive': False,
        }
        self.assumptions = []
        self._distinct = set()

    # -- coverage bookkeeping
    def count(self, key_obj, nontrivial=True):
        self.cov['evaluations'] += 1
        if nontrivial:
            self._distinct.add(hashlib.sha1(repr(key_obj).encode()).digest()[:8])

    def sample(self, obj, limit=6):
        if len(self.cov['samples']) < limit:
            self.cov['samples'].append(obj)

    def set_proof(self, build: BuildResult, theorems, checker_cmd):
        """obligations = listed property theorems + regenerated certificates; discharged = those whose
        axiom audit is clean (the build itself having succeeded)."""
        self.cov['obligations'] = len(theorems)
        ok = 0
        missing = []
        for t in theorems:
            if build.ok and t in build.axioms and all(a in ALLOWED_AXIOMS for a in build.axioms[t]):
                ok += 1
            else:
                missing.append(t)
        if self.tier == 'thorough' and build.ok and os.environ.get('VERIF_DEV_SKIP_LEAN') != '1':
            # independent re-check of the compiled proofs by the toolchain's leanchecker (replays every declaration through the kernel)
            mods = sorted(set(re.findall(r'Lessm\.Props\.\w+', checker_cmd)))
            lk = _lock()
            t0 = time.time()
            try:
                r = subprocess.run(['lake', 'env', 'leanchecker'] + mods, cwd=LEAN, capture_output=True, text=True, timeout=3000)
                rc, out = r.returncode, (r.stdout + r.stderr)[-600:]
            except Exception as e:  # noqa
                rc, out = 99, repr(e)
            finally:
                lk.close()
            self.cov['independent_recheck'] = {'cmd': 'lake env leanchecker ' + ' '.join(mods), 'exit': rc, 'seconds': round(time.time() - t0, 1), 'output_tail': out}
            if rc != 0:
                build.ok = False
                build.log += '\nLEANCHECKER: ' + out
                ok = 0
                missing = list(theorems)
        self.cov['discharged'] = ok
        self.cov['checker_cmd'] = checker_cmd
        self.cov['axioms'] = {t: build.axioms.get(t) for t in theorems}
        self.cov['undischarged'] = missing
        return missing

    # -- verdicts
    def violation(self, payload: dict, suffix: str = ''):
        payload = dict(payload, property=self.prop)
        path = write_replay(self.prop, payload)
        self.violations.append((path, suffix))
        # one line of detail for the log (the replay file may not travel with it)
        brief = {k: (str(v)[:400]) for k, v in payload.items() if k in ('kind', 'why', 'problem', 'source', 'options', 'other_options', 'output', 'recompiled',
                                                                        'expected', 'actual', 'class', 'label', 'setting', 'broken', 'argv', 'problems')}
        self.details = getattr(self, 'details', [])
        self.details.append('DETAIL property=%s replay=%s %s' % (self.prop, path, json.dumps(brief, default=str)[:1800]))
        return path

    def known(self, what: str):
        self.known_printed.append(what)

    def finish(self):
        self.cov['distinct_nontrivial'] = len(self._distinct)
        ev = {
            'property_id': self.prop, 'tier': self.tier, 'seed': seed(), 'level': self.level,
            'coverage': self.cov, 'assumptions': self.assumptions,
            'wall_s': round(time.time() - self.t0, 2), 'violations': len(self.violations),
            'known_findings_replayed': self.known_printed,
        }
        os.makedirs(EVID, exist_ok=True)
        with open(os.path.join(EVID, self.prop + '.json'), 'w') as f:
            json.dump(ev, f, indent=1, default=str)
        close_pool()
        for k in self.known_printed:
            print('KNOWN-FINDING: property=%s %s' % (self.prop, k))
        if self.violations:
            for dline in getattr(self, 'details', [])[:6]:
                print(dline)
            seen = set()
            for path, suffix in self.violations:
                if path in seen:
                    continue
                seen.add(path)
                print(('VIOLATION property=%s replay=%s %s' % (self.prop, path, suffix)).rstrip())
            return 1
        print('OK property=%s tier=%s evaluations=%d distinct=%d obligations=%d/%d wall=%.1fs' % (
            self.prop, self.tier, self.cov['evaluations'], self.cov['distinct_nontrivial'],
            self.cov['discharged'], self.cov['obligations'], time.time() - self.t0))
        return 0


TRUSTED_BASE = [
    'Lean 4.33.0 kernel; axioms allowed in property theorems: propext, Classical.choice, Quot.sound only',
    'the statements in lean/Lessm/Props (read them) and the model definitions they are about',
    'harness/extract.py (translator; certificates re-checked by Lean), the driver line protocol, the Python generators, canonicalisers and oracles',
    'assumed, exercised but not proved: PLY lex/yacc engines, CPython re/float/int/colorsys, the cut of text into lexemes, the grammar actions',
]
