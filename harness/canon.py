"""
CSS text -> canonical observations.

parse_css(text) -> list of nodes
    ('rule', prelude, [(prop, value, important)])          a style rule
    ('at',   prelude, [nodes])                              an at-rule with a block of rules/at-rules
    ('atdecl', prelude, [(prop, value, important)])         an at-rule whose block holds declarations (@font-face, ...)
    ('stmt', text)                                          @charset / @import ... ;
String literals are respected (braces / semicolons inside them are inert).
Selectors: optional spaces around , > + ~ removed, runs of spaces collapsed (descendant spaces kept).
Values: runs of spaces collapsed, space after commas removed (outside strings).
"""
import re


def _scan_string(s, i):
    q = s[i]
    j = i + 1
    while j < len(s):
        if s[j] == '\\':
            j += 2
            continue
        if s[j] == q:
            return j + 1
        j += 1
    return len(s)


def _split_top(s, sep):
    """split at top-level `sep` characters (outside strings and parentheses)"""
    out, cur, i, depth = [], [], 0, 0
    while i < len(s):
        c = s[i]
        if c in '"\'':
            j = _scan_string(s, i)
            cur.append(s[i:j])
            i = j
            continue
        if c == '(':
            depth += 1
        elif c == ')':
            depth = max(0, depth - 1)
        if c == sep and depth == 0:
            out.append(''.join(cur))
            cur = []
        else:
            cur.append(c)
        i += 1
    out.append(''.join(cur))
    return out


def _norm_outside_strings(s, fn):
    """apply fn to the parts of s outside string literals"""
    out, i, cur = [], 0, []
    while i < len(s):
        c = s[i]
        if c in '"\'':
            if cur:
                out.append(fn(''.join(cur)))
                cur = []
            j = _scan_string(s, i)
            out.append(s[i:j])
            i = j
        else:
            cur.append(c)
            i += 1
    if cur:
        out.append(fn(''.join(cur)))
    return ''.join(out)


def norm_selector(sel):
    def f(t):
        t = re.sub(r'\s+', ' ', t)
        t = re.sub(r'\s*([>+~])\s*', r'\1', t)
        return t
    return _norm_outside_strings(sel.strip(), f).strip()


def norm_selector_list(prelude):
    return [norm_selector(x) for x in _split_top(prelude, ',')]


def norm_value(v):
    def f(t):
        t = re.sub(r'\s+', ' ', t)
        t = re.sub(r'\s*,\s*', ',', t)
        return t
    return _norm_outside_strings(v.strip(), f).strip()


def parse_decl(d):
    d = d.strip()
    if not d:
        return None
    parts = _split_top(d, ':')
    prop = parts[0].strip()
    val = ':'.join(parts[1:]).strip()
    imp = False
    m = re.search(r'\s*!\s*important\s*$', val)
    if m:
        imp = True
        val = val[:m.start()]
    return (prop, norm_value(val), imp)


def _find_block_end(s, i):
    """s[i] == '{' ; return index of the matching '}'"""
    depth, j = 0, i
    while j < len(s):
        c = s[j]
        if c in '"\'':
            j = _scan_string(s, j)
            continue
        if c == '{':
            depth += 1
        elif c == '}':
            depth -= 1
            if depth == 0:
                return j
        j += 1
    return len(s)


def _has_top_brace(s):
    i = 0
    while i < len(s):
        c = s[i]
        if c in '"\'':
            i = _scan_string(s, i)
            continue
        if c == '{':
            return True
        i += 1
    return False


def parse_css(text):
    nodes, i, n = [], 0, len(text)
    start = 0
    while i < n:
        c = text[i]
        if c in '"\'':
            i = _scan_string(text, i)
            continue
        if c == ';':
            stmt = text[start:i].strip()
            if stmt:
                nodes.append(('stmt', re.sub(r'\s+', ' ', stmt)))
            i += 1
            start = i
            continue
        if c == '{':
            prelude = text[start:i].strip()
            end = _find_block_end(text, i)
            body = text[i + 1:end]
            if prelude.startswith('@'):
                if _has_top_brace(body):
                    nodes.append(('at', re.sub(r'\s+', ' ', prelude), parse_css(body)))
                else:
                    nodes.append(('atdecl', re.sub(r'\s+', ' ', prelude), [x for x in (parse_decl(d) for d in _split_top(body, ';')) if x]))
            elif _has_top_brace(body):
                nodes.append(('nested', prelude, parse_css(body)))       # a rule nested in a rule: never valid output
            else:
                nodes.append(('rule', norm_selector_list(prelude), [x for x in (parse_decl(d) for d in _split_top(body, ';')) if x]))
            i = end + 1
            start = i
            continue
        i += 1
    tail = text[start:].strip()
    if tail:
        nodes.append(('garbage', tail))
    return nodes


def rules(text):
    """flat ordered list of (media-prelude tuple, selector list, declarations) of all style rules"""
    out = []

    def walk(nodes, ctx):
        for nd in nodes:
            if nd[0] == 'rule':
                out.append((ctx, nd[1], nd[2]))
            elif nd[0] == 'at':
                walk(nd[2], ctx + (nd[1],))
            elif nd[0] == 'atdecl':
                out.append((ctx + (nd[1],), [], nd[2]))
            else:
                out.append((ctx, [nd[0]], [nd[1:]]))
    walk(parse_css(text), ())
    return out
