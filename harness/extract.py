#!/usr/bin/env python
"""
Translator: regenerate lean/Lessm/Gen/*.lean from the working tree of /repo.

It wraps the two third-party entry points `ply.yacc.yacc` and `ply.lex.lex`, calls the public
`lesscpy.compile` on an empty stylesheet and so captures the LRParser and the lexer the code builds
(without depending on lesscpy's own internals beyond attribute names that are looked up defensively).
From PLY's reflection it writes, as Lean data,

  * the productions (name, rhs, precedence) of the grammar the code actually runs,
  * the LALR action/goto tables (as encoded strings, only executed, never reasoned about),
  * the precedence declaration, the significant-whitespace set, literals, reserved words,
  * untrusted *certificates* (delimiter weights of every non-terminal) that Lean re-checks.

Files are rewritten only when their content changes, so a no-op run costs no Lean rebuild.
"""
import io
import os
import sys
import warnings

warnings.filterwarnings('ignore')
REPO = os.environ.get('VERIF_REPO', '/repo')
VERIF = os.path.dirname(os.path.dirname(os.path.abspath(__file__)))
GEN = os.path.join(VERIF, 'lean', 'Lessm', 'Gen')
sys.path.insert(0, REPO)


def capture():
    import ply.yacc
    import ply.lex
    cap = {}
    oy, ol = ply.yacc.yacc, ply.lex.lex

    def wy(*a, **k):
        p = oy(*a, **k)
        cap['parser'] = p
        cap['ymodule'] = k.get('module')
        cap['start'] = k.get('start')
        return p

    def wl(*a, **k):
        lx = ol(*a, **k)
        cap['lexer'] = lx
        cap['lmodule'] = k.get('module')
        return lx

    ply.yacc.yacc, ply.lex.lex = wy, wl
    try:
        import lesscpy
        lesscpy.compile(io.StringIO(''))
    finally:
        ply.yacc.yacc, ply.lex.lex = oy, ol
    if 'parser' not in cap or 'lexer' not in cap:
        raise SystemExit('extract: could not capture parser/lexer')
    return cap


def lean_str(s):
    out = ['"']
    for ch in s:
        if ch == '"':
            out.append('\\"')
        elif ch == '\\':
            out.append('\\\\')
        elif ch == '\n':
            out.append('\\n')
        elif ch == '\t':
            out.append('\\t')
        elif ord(ch) < 32 or ord(ch) > 126:
            out.append('\\u{%x}' % ord(ch))
        else:
            out.append(ch)
    out.append('"')
    return ''.join(out)


def write_if_changed(path, content):
    os.makedirs(os.path.dirname(path), exist_ok=True)
    old = None
    if os.path.exists(path):
        with open(path, encoding='utf-8') as f:
            old = f.read()
    if old != content:
        with open(path + '.tmp', 'w', encoding='utf-8') as f:
            f.write(content)
        os.replace(path + '.tmp', path)
        return True
    return False


def weights_certificate(prods, nts, tw):
    """For terminal weights `tw` (dict name->int) find non-terminal weights consistent with every
    production, via one derivable sentence per non-terminal.  Returns dict or None if inconsistent."""
    nw = {}
    changed = True
    while changed:
        changed = False
        for lhs, rhs in prods:
            if lhs in nw:
                continue
            tot, ok = 0, True
            for s in rhs:
                if s in nts:
                    if s in nw:
                        tot += nw[s]
                    else:
                        ok = False
                        break
                else:
                    tot += tw.get(s, 0)
            if ok:
                nw[lhs] = tot
                changed = True
    for lhs, rhs in prods:
        if lhs not in nw:
            return None
        tot = sum(nw[s] if s in nts else tw.get(s, 0) for s in rhs)
        if tot != nw[lhs]:
            return None
    return nw


def low_certificate(prods, nts, tw, nw):
    """Greatest fixpoint of  low[A] = min over productions A->X1..Xn, i of (w(X1..X_{i-1}) + low(Xi)),
    low[t] = min(0, tw t): a lower bound for every prefix sum of every sentence of A."""
    low = {n: 0 for n in nts}
    for _ in range(len(nts) * 4 + 10):
        changed = False
        for lhs, rhs in prods:
            acc = 0
            for s in rhs:
                l = low[s] if s in nts else min(0, tw.get(s, 0))
                if acc + l < low[lhs]:
                    low[lhs] = acc + l
                    changed = True
                acc += nw[s] if s in nts else tw.get(s, 0)
        if not changed:
            return low
    return None


DELIMS = {
    'brace': {'t_bopen': 1, 't_bclose': -1},
    'paren': {'t_popen': 1, 'less_open_format': 1, 't_pclose': -1},
    'istr': {'t_isopen': 1, 't_isclose': -1},
    'estr': {'t_eopen': 1, 't_eclose': -1},
}



def regex_to_lean(pattern, flags):
    """Python regex -> Lean term of type Lessm.Rx.Re (only the constructs the matcher models; anything else raises)"""
    import re
    try:
        import re._parser as sp
        import re._constants as sc
    except ImportError:                      # Python < 3.11
        import sre_parse as sp
        import sre_constants as sc
    tree = sp.parse(pattern, flags)

    def ch(n):
        return '(Char.ofNat %d)' % n

    def cat(av, neg_ok=True):
        m = {sc.CATEGORY_DIGIT: '.digit', sc.CATEGORY_SPACE: '.space', sc.CATEGORY_WORD: '.word',
             sc.CATEGORY_NOT_DIGIT: '.notDigit', sc.CATEGORY_NOT_SPACE: '.notSpace', sc.CATEGORY_NOT_WORD: '.notWord'}
        if av not in m:
            raise ValueError('regex category %r is not modelled' % (av,))
        return m[av]

    def seq(items):
        items = [conv(op, av) for op, av in items]
        if not items:
            return '.eps'
        out = items[-1]
        for it in reversed(items[:-1]):
            out = '(.seq %s %s)' % (it, out)
        return out

    def conv(op, av):
        if op is sc.LITERAL:
            return '(.ch %s)' % ch(av)
        if op is sc.NOT_LITERAL:
            return '(.notCh %s)' % ch(av)
        if op is sc.ANY:
            return '.any'
        if op is sc.IN:
            neg = False
            its = []
            for o, a in av:
                if o is sc.NEGATE:
                    neg = True
                elif o is sc.LITERAL:
                    its.append('.lit %s' % ch(a))
                elif o is sc.RANGE:
                    its.append('.range %s %s' % (ch(a[0]), ch(a[1])))
                elif o is sc.CATEGORY:
                    its.append(cat(a))
                else:
                    raise ValueError('regex set item %r is not modelled' % (o,))
            return '(.cls %s [%s])' % ('true' if neg else 'false', ', '.join(its))
        if op is sc.BRANCH:
            alts = [seq(list(b)) for b in av[1]]
            out = alts[-1]
            for a in reversed(alts[:-1]):
                out = '(.alt %s %s)' % (a, out)
            return out
        if op is sc.SUBPATTERN:
            if av[1] or av[2]:
                raise ValueError('inline flags are not modelled')
            return seq(list(av[3]))
        if op in (sc.MAX_REPEAT, sc.MIN_REPEAT):
            lo, hi, body = av
            return '(.rep %d %s %s %s)' % (lo, 'none' if hi == sc.MAXREPEAT else '(some %d)' % hi,
                                            'true' if op is sc.MAX_REPEAT else 'false', seq(list(body)))
        raise ValueError('regex construct %r is not modelled' % (op,))
    return seq(list(tree))


def lex_rules(lexobj):
    """per state: the rules in ply's matching order as (function name, token type, regex source)"""
    out = []
    for state in lexobj.lexstateinfo:
        # lexstatere[state] lists the state's own master regexes first, then (inclusive) those of INITIAL
        own = lexobj.lexstatere[state]
        if state != 'INITIAL':
            own = own[:len(own) - len(lexobj.lexstatere['INITIAL'])]
        rules = []
        for lexre, names in own:
            idx = {v: k for k, v in lexre.groupindex.items()}
            for i, ent in enumerate(names):
                if not ent or i not in idx:
                    continue
                fn, ttype = ent
                gname = idx[i]
                # the rule's own regex: the docstring of the function or the string rule
                src = None
                if fn is not None:
                    import ply.lex
                    src = ply.lex._get_regex(fn)
                rules.append((gname, ttype or '', src))
        out.append((state, rules))
    return out


def main():
    cap = capture()
    parser = cap['parser']
    ymod, lmod = cap['ymodule'], cap['lmodule']
    prods_raw = [p for p in parser.productions][1:]   # skip S' -> start
    start = parser.productions[0].prod[0]
    nts = sorted({p.name for p in prods_raw})
    terms = set()
    for p in prods_raw:
        for s in p.prod:
            if s not in nts:
                terms.add(s)
    for st in parser.action.values():
        for k in st:
            terms.add(k)
    terms.discard('$end')
    terms = ['$end'] + sorted(terms)
    tid = {t: i for i, t in enumerate(terms)}
    nid = {n: i for i, n in enumerate(nts)}

    def sym(s):
        return '.nt %d' % nid[s] if s in nid else '.t %d' % tid[s]

    prods = [(p.name, list(p.prod)) for p in prods_raw]
    lines = []
    lines.append('/- GENERATED by harness/extract.py from the working tree of the repository. Do not edit. -/')
    lines.append('import Lessm.Model.Cfg')
    lines.append('namespace Lessm.Gen')
    lines.append('open Lessm.Cfg')
    lines.append('def terminals : List String := [%s]' % ', '.join(lean_str(t) for t in terms))
    lines.append('def nonterminals : List String := [%s]' % ', '.join(lean_str(t) for t in nts))
    lines.append('def startNt : Nat := %d' % nid[start])
    lines.append('def prods : List Rule := [')
    lines.append(',\n'.join('  ⟨%d, [%s]⟩' % (nid[l], ', '.join(sym(s) for s in r)) for l, r in prods))
    lines.append(']')
    lines.append('def grammar : Grammar := ⟨prods⟩')
    # production precedence as PLY resolved it (assoc, level)
    lines.append('def prodPrec : List (Nat × String × Nat) := [%s]' % ', '.join(
        '(%d, %s, %d)' % (i, lean_str(p.prec[0]), p.prec[1]) for i, p in enumerate(prods_raw) if p.prec[1] != 0))
    # certificates
    for fam, tw in DELIMS.items():
        tw = {k: v for k, v in tw.items() if k in tid}
        nw = weights_certificate(prods, set(nts), tw)
        if nw is None:
            # keep the file well-formed; the Lean check of this certificate will fail, which is the signal
            nw = {n: 0 for n in nts}
            low = {n: 0 for n in nts}
        else:
            low = low_certificate(prods, set(nts), tw, nw) or {n: -1 for n in nts}
        lines.append('def %sTw : List (Nat × Int) := [%s]' % (fam, ', '.join('(%d, %d)' % (tid[k], v) for k, v in sorted(tw.items()))))
        lines.append('def %sNw : List (Nat × Int) := [%s]' % (fam, ', '.join('(%d, %d)' % (nid[k], v) for k, v in sorted(nw.items()) if v != 0)))
        lines.append('def %sLow : List (Nat × Int) := [%s]' % (fam, ', '.join('(%d, %d)' % (nid[k], v) for k, v in sorted(low.items()) if v != 0)))
    lines.append('end Lessm.Gen')
    ch1 = write_if_changed(os.path.join(GEN, 'Grammar.lean'), '\n'.join(lines) + '\n')

    # LALR tables, encoded:  state:tok=act,tok=act;...   (act > 0 shift, < 0 reduce by production -act, 0 accept)
    def enc(tbl, ids):
        parts = []
        for st in sorted(tbl):
            row = tbl[st]
            parts.append('%d:%s' % (st, ','.join('%d=%d' % (ids[k], v) for k, v in sorted(row.items(), key=lambda kv: ids[kv[0]]))))
        return ';'.join(parts)

    t = []
    t.append('/- GENERATED by harness/extract.py. LALR tables of the current grammar, only executed. -/')
    t.append('namespace Lessm.Gen')
    t.append('def actionEnc : String := %s' % lean_str(enc(parser.action, tid)))
    t.append('def gotoEnc : String := %s' % lean_str(enc(parser.goto, nid)))
    t.append('def prodLens : List (Nat × Nat) := [%s]' % ', '.join('(%d, %d)' % (nid[p.name], p.len) for p in parser.productions[1:]))
    t.append('end Lessm.Gen')
    ch2 = write_if_changed(os.path.join(GEN, 'Lalr.lean'), '\n'.join(t) + '\n')

    # word tables
    prec = getattr(ymod, 'precedence', ())
    sig = sorted(getattr(lmod, 'significant_ws', []))
    literals = getattr(lmod, 'literals', '')
    try:
        from lesscpy.lib import reserved, css, dom
        res = sorted(reserved.tokens.items())
        props = sorted(css.properties)
        elems = sorted(dom.elements)
        mtypes = list(css.media_types)
        mfeats = list(css.media_features)
    except Exception:
        res, props, elems, mtypes, mfeats = [], [], [], [], []
    ignored = sorted(getattr(ymod, 'ignored', ()))
    w = []
    w.append('/- GENERATED by harness/extract.py. Word tables of lexer and parser. -/')
    w.append('namespace Lessm.Gen')
    w.append('def precedence : List (String × List String) := [%s]' % ', '.join(
        '(%s, [%s])' % (lean_str(row[0]), ', '.join(lean_str(x) for x in row[1:])) for row in prec))
    w.append('def significantWs : List String := [%s]' % ', '.join(lean_str(x) for x in sig))
    w.append('def literals : String := %s' % lean_str(literals))
    w.append('def ignoredTokens : List String := [%s]' % ', '.join(lean_str(x) for x in ignored))
    w.append('def reserved : List (String × String) := [%s]' % ', '.join('(%s, %s)' % (lean_str(a), lean_str(b)) for a, b in res))
    w.append('def mediaTypes : List String := [%s]' % ', '.join(lean_str(x) for x in mtypes))
    w.append('def mediaFeatures : List String := [%s]' % ', '.join(lean_str(x) for x in mfeats))
    w.append('end Lessm.Gen')
    ch3 = write_if_changed(os.path.join(GEN, 'Words.lean'), '\n'.join(w) + '\n')
    big = []
    big.append('/- GENERATED by harness/extract.py. Large word lists (executed only). -/')
    big.append('namespace Lessm.Gen')
    big.append('def cssPropertiesEnc : String := %s' % lean_str('\n'.join(props)))
    big.append('def domElementsEnc : String := %s' % lean_str('\n'.join(elems)))
    big.append('end Lessm.Gen')
    ch4 = write_if_changed(os.path.join(GEN, 'BigWords.lean'), '\n'.join(big) + '\n')
    # lexer rules: regular expressions in ply's matching order, per state
    import re
    lexobj = cap['lexer']
    lr = []
    lr.append('/- GENERATED by harness/extract.py from the lexer object of the source tree: rules per state in ply\'s matching order. -/')
    lr.append('import Lessm.Model.Lex0')
    lr.append('namespace Lessm.Gen')
    lr.append('open Lessm.Rx Lessm.Lex0')
    nrules = 0
    stnames = []
    for state, rules in lex_rules(lexobj):
        stnames.append(state)
        ents = []
        for gname, ttype, src in rules:
            if src is None:
                raise SystemExit('extract: rule %s has no regular expression' % gname)
            ents.append('  ⟨%s, %s, %s⟩' % (lean_str(gname), lean_str(ttype), regex_to_lean(src, re.IGNORECASE | re.UNICODE)))
            nrules += 1
        lr.append('def lexRules_%s : List Rule := [\n%s\n]' % (state, ',\n'.join(ents)))
    lr.append('def lexRules : List (String × List Rule) := [%s]' % ', '.join('(%s, lexRules_%s)' % (lean_str(st), st) for st in stnames))
    lr.append('def lexReflags : Nat := %d' % int(lexobj.lexreflags))
    lr.append('end Lessm.Gen')
    ch5 = write_if_changed(os.path.join(GEN, 'LexRules.lean'), '\n'.join(lr) + '\n')
    print('extract: %d productions, %d terminals, %d nonterminals, %d states, %d lexer rules; changed=%s' % (
        len(prods), len(terms), len(nts), len(parser.action), nrules, [ch1, ch2, ch3, ch4, ch5]))


if __name__ == '__main__':
    main()
