#!/bin/sh
# tools/adopt_mutant.sh <Cxx> <k> (env MUTDIR=/tmp/mut2 KOFF=2 for the second round: files patch<k>.diff etc. in $MUTDIR/<Cxx>, kept as <Cxx>-<k+KOFF>) : verify a sub-agent's change in a fresh scratch worktree and keep it under seeded/
# (demo passes on pristine, fails with the patch, the full unedited test suite passes with the patch)
P="$1"; K="$2"; SRC="${MUTDIR:-/tmp/mut}/$P"
ID="$P-$((K + ${KOFF:-0}))"; W="/tmp/adopt_$ID"
[ -f "$SRC/patch$K.diff" ] || { echo "$ID: no patch"; exit 2; }
git -C /repo worktree remove --force "$W" 2>/dev/null
git -C /repo worktree add --detach "$W" HEAD -q || exit 2
cd "$W" || exit 2
cp "$SRC/demo$K.py" demo.py
/venv/bin/python demo.py >/tmp/adopt_$ID.pre 2>&1; PRE=$?
git apply "$SRC/patch$K.diff" || { echo "$ID: patch does not apply"; cd /; git -C /repo worktree remove --force "$W"; exit 3; }
/venv/bin/python demo.py >/tmp/adopt_$ID.post 2>&1; POST=$?
TMPDIR=$(mktemp -d) ; export TMPDIR
/venv/bin/python -m pytest -q -p no:cacheprovider --timeout=900 >/tmp/adopt_$ID.pytest 2>&1; PT=$?
rm -rf "$TMPDIR"
SUMMARY=$(tail -1 /tmp/adopt_$ID.pytest)
cd /; git -C /repo worktree remove --force "$W"
echo "$ID: demo pristine exit=$PRE, patched exit=$POST, pytest exit=$PT ($SUMMARY)"
if [ "$PRE" = 0 ] && [ "$POST" != 0 ] && [ "$PT" = 0 ]; then
  D="/verif/seeded/$ID"; mkdir -p "$D"
  cp "$SRC/patch$K.diff" "$D/patch.diff"; cp "$SRC/demo$K.py" "$D/demo.py"
  /venv/bin/python - "$SRC/meta$K.json" "$D/meta.json" "$PRE" "$POST" "$SUMMARY" <<'PY'
import json,sys
try: m=json.load(open(sys.argv[1]))
except Exception: m={}
m['confirmed']={'demo_pristine_exit':int(sys.argv[3]),'demo_patched_exit':int(sys.argv[4]),'pytest_with_patch':sys.argv[5],
  'how':'tools/adopt_mutant.sh: fresh scratch worktree of /repo HEAD; demo.py before and after git apply; full pytest with the patch'}
m.setdefault('detected_by', None)
json.dump(m,open(sys.argv[2],'w'),indent=1)
PY
  echo "$ID: kept"
else
  echo "$ID: REJECTED"; exit 1
fi
rm -f /tmp/adopt_$ID.pre /tmp/adopt_$ID.post /tmp/adopt_$ID.pytest
