#!/bin/sh
# tools/seeds.sh <Cxx> [tier] : run a check with several seeds on the current tree
P="$1"; T="${2:-quick}"
cd "$(dirname "$0")/.." || exit 2
for s in 1 2 3 4 5; do
  VERIF_SEED=$s ./check "$P" --tier "$T" | tail -1
done
