NOTES = ('Technique family: machine-checked proof in Lean 4. Every check = regenerate Lessm/Gen from /repo, lake build the '
         'property theorems, audit axioms, run the correspondence of the executable model with the real compiler, replay known '
         'findings. See DESIGN.md.')
BASE_NOTE = ('Trusted: Lean kernel (axioms propext, Classical.choice, Quot.sound only), the theorem statements, harness/extract.py, '
             'the driver protocol, generators and canonicalisers; PLY, CPython re/float/colorsys, the lexeme cut and the grammar '
             'actions are exercised by the correspondence run, not proved.')
CHECKS = {
 'C08': dict(category='proof',
   technique='Lean 4 theorems on a hand-written model of color.py + differential correspondence (exhaustive short literals)',
   text=('Theorems (all literals of 3 or 6 hex digits in any case; all channel triples; all four operators): normalisation yields # + six '
         'lower-case digits of the same colour and is idempotent; arithmetic is channel-wise, equals saturating natural-number '
         'arithmetic (min 255 (a+b), a-b truncated at 0, min 255 (a*b), min 255 (a/b)), and the printed result reads back to exactly '
         'those channels. The model is tied to color.py by running both on all 4096 short literals x 3 case patterns x 3 positions, '
         'sampled 6-digit literals and boundary-biased pairs x 4 operators.'),
   note=BASE_NOTE),
 'C17': dict(category='proof',
   technique='Lean 4 theorems over exact rationals on a hand-written model of call.py/utility.py + full-grid differential correspondence',
   text=('Theorems for every rational argument: round is within 1/2 of its argument, sends k+1/2 away from zero, fixes integers and is odd; '
         'ceil/floor satisfy the defining inequalities; increment/decrement/percentage are x+1, x-1, 100x; the unit is kept, percentage '
         'yields %, a zero result is bare; an unknown function prints name(arg1,...,argn) with the evaluated arguments in order. '
         'Tied to the code by running model and compiler on the full grid the property names (both tiers) in literal, variable and '
         'expression form (offsets down to 1e-5, where an expression result is printed in exponent form), and on unknown-function calls incl. '
         'names that collide with internal attributes and string arguments with blanks before commas. Model/NumE.lean models split_unit with '
         'its exponent group (repair C17-exponent-arg); C17_exp_*: the split loses and invents nothing, coincides with the exponent-free model '
         'on every lexeme whose unit does not begin with an exponent (no unit, px, %, s, em, ex, ...), cuts mantissa+exponent+unit after the '
         'exponent and denotes mantissa x 10^e; tied in-process to utility.split_unit on number-like lexemes.'),
   note=BASE_NOTE + ' Float evaluation in CPython is compared with the exact model to 1e-9 relative, as the property prescribes.'),
 'C06': dict(category='proof',
   technique='Lean 4 theorem model=spec by induction over the guard token list + exhaustive catalogue correspondence',
   text=('Theorem C06: for every well-formed guard (any number of comma-separated chains, any chain length, any operator, any not) and every '
         'argument assignment over the rationals, the model of parse_guards run on the token list the grammar builds equals the '
         'declarative semantics "some chain has all conditions true"; C06_cmp/C06_not give each operator its arithmetic meaning and '
         'show the stored reversed operator is the negation; C06_excl: among pairwise exclusive same-named mixins the one whose guard '
         'holds is applied in any definition order. The model is tied to the code by the complete single-condition catalogue '
         '(6680 guards), all truth assignments of 9 connective shapes and exclusive mixin sets in every order, in both tiers.'),
   note=BASE_NOTE + ' Operands are numbers (units ignored by the comparison, as in the code); string-valued guards are outside the property.'),
 'C04': dict(category='proof',
   technique='Lean 4: LR/precedence parsing theorem instantiated on the regenerated precedence table + evaluator = arithmetic by induction; differential correspondence',
   text=('C04_table/C04_prodprec are decided on the precedence tuple and the grammar regenerated from the source on every run (all four '
         'operators left, + - below * /, the four binary productions carry exactly these levels). C04_parse: for every tree of any '
         'size that is the standard reading of its text, the LR parser driven by yacc\'s conflict rule with those levels reads the text '
         'back to that tree (parentheses and -( ) respected). C04_eval: on every tree whose proper sub-expressions are non-zero the '
         'model of Expression.parse/with_units/NegatedExpression returns the value of ordinary arithmetic and the unit of the leftmost '
         'operand that has one. Tie: all operator pairs and triples x unit placements x literal/variable operands and random trees '
         'through the real compiler, compared with exact Fractions to 1e-9. Unary minus on a variable: Model/Sign.lean models the folding of the '
         'sign token (utility.fold_signs); C04_sign_clean/_fixed/_idem/_conservative/_value/_reading/_local: the output never holds a double '
         'sign, sign-free token lists are untouched, n-fold negation is decided by parity with a negative number losing its sign, folding is '
         'local; tied in-process to utility.fold_signs on random token lists, plus a catalogue of -@v in every value position.'),
   note=BASE_NOTE + ' C04-negvar (unary minus on a negative-valued variable) was an open finding and is repaired (fix c681c54), its inputs are generated; PLY implementing the documented conflict rule is assumed and exercised by the operator catalogue.'),
 'C09': dict(category='proof',
   technique='Lean 4 theorems over exact rationals (HLS/RGB round trip, ranges, rounding, mix) + dense-grid differential correspondence of the float code with the exact model',
   text=('Sixteen theorems about an exact-rational transcription of colorsys and of color.py: hlsToRgb inverts rgbToHls on [0,1]^3; component '
         'ranges; lighten/darken/saturate/desaturate by 0 and spin by 0 are the identity on every byte colour; spin is 360-periodic; greyscale '
         'has r=g=b; the named HSL component is shifted by d/100 and clamped, the others untouched; every channel of _ophsl is within 1/2 '
         'of the exact value (nearest integer); mix at 100%/0% returns its arguments, lies between the inputs and is the floor of the exact mean; all '
         'results are bytes. The float implementation is tied to the exact model on short-form colours (all 4096 in thorough) + random 24-bit '
         'colours x every function x a dense amount/angle/weight grid, under the observation the property prescribes (nearest, either '
         'neighbour at a tie; mix within one unit).'),
   note=BASE_NOTE + ' No float error analysis: that the double computation rounds like the exact value away from ties is what the grid run validates.'),
 'C02': dict(category='proof',
   technique='Lean 4: model of Identifier.parse/root and of the two passes over the scope stack, theorem model = recursive flattening by mutual induction; differential correspondence',
   text=('C02_stack/C02: for every rule tree (any depth, width, selectors) the two-pass model with an explicit scope stack (frame pushed at {, '
         'name parsed against the innermost frame with a current name, then set) equals the plain recursive flattening. C02_once_dfs: each source '
         'rule with declarations yields exactly one output rule with exactly its own declarations, depth-first, a rule before its nested rules. '
         'C02_count/tuples_mem: without & one selector per parent, with k ampersands one per k-tuple of parents (all of them). C02_amp: every & is '
         'replaced textually, in order, by the tuple member; C02_desc/C02_comb: descendant space by default, dropped before a written combinator. '
         'Tie: the model (list order included) equals the real output on a 3x42x3 placement catalogue under two layouts and on random trees to depth 7; '
         'an independent string-level oracle checks the property itself (selector set, rule order, declarations). Cross-model theorems (Props/Cross*.lean, 19 audited): the models of variables, media and mixins are conservative extensions of this one on sheets without their own constructs; the at-rule model agrees with the media model and its printer with the formatter model; the guard test and the call arithmetic of the mixin model are those of the guard and expression models.'),
   note=BASE_NOTE + ' Open known finding C02-star-amp. Fragment boundaries (element after &-suffix, * in the middle) are syntax errors of the front end and are not generated.'),
 'C03': dict(category='proof',
   technique='Lean 4: two-pass frame-stack model with lazy substitution, theorem model = lexical hoisted semantics under a decidable side condition; differential correspondence',
   text=('Theorem C03: for every program (any depth, shadowing, chains, top-level redefinition, use before definition, uses in values and in '
         'selector interpolations) satisfying the decidable side condition VarOK, the code-shaped model (pass G registering at grammar time and '
         'resolving selectors, pass E re-registering top-level variables in order, frames pushed and popped per block, substitution until '
         'no variable remains) equals the declarative semantics (nearest enclosing block that defines the name, else the last top-level '
         'definition; values substituted recursively), for every fuel. C03_no_ref: nothing that survives a successful substitution is a '
         'variable; C03_unknown: a reference without visible definition is an error; C03_local: a block leaves the caller\'s scope '
         'unchanged; C03_innermost: innermost frame first. VarOK is the property\'s own side condition plus the exclusion of the open '
         'finding C03-toplevel-redef, for which Props/C03.lean proves model != spec on the witness. Tie: model = real output on random '
         'programs inside and outside VarOK (error name included), spec = model and an independent Python oracle on those inside.'),
   note=BASE_NOTE + ' Uses of variables in media features and mixin arguments are exercised by C07 and C05; expressions inside values by C04.'),
 'C07': dict(category='proof',
   technique='Lean 4: model of Block.parse media rotation as tree surgery, theorem observation = declarative (media conjunction, selector) semantics by mutual induction; differential correspondence',
   text=('Theorem C07: for every tree of rules and @media blocks (any depth, comma-list parents, &-rules, @media in @media to any depth) the '
         'flattened observation of the model of the rotation equals the declarative semantics: each declaration list under the conjunction of '
         'all enclosing queries and its full selector, a rule\'s unconditional output before its media-conditional output, in source order. '
         'Corollaries proved: no @media below the top level (C07_top, C07_top_depth), one merged query per rule (C07_media_len), the merged query '
         'is q1 and q2 ... and qn in nesting order, nothing lost or duplicated (C07_and_*), unconditional before conditional (C07_order*), every '
         'declaration list exactly once (C07_once, C07_once_observed: permutation of the source groups). Tie: model = real output on a placement '
         'catalogue x 9 condition forms and on random trees; @media inside mixin bodies (two callers, rule used as mixin, caller inside @media) '
         'is checked against inlining by the oracle.'),
   note=BASE_NOTE + ' Comma-separated outer queries combined with a nested @media are outside the condition forms the property lists (the pinned code keeps only the first alternative).'),
 'C19': dict(category='proof',
   technique='Lean 4: model of at-rule block evaluation/printing, structure-preservation theorem by mutual induction; differential correspondence over all vendor spellings and contexts',
   text=('C19_item/C19_list: on every sheet without empty blocks (any number of items, keyframes with any number of frames and any frame '
         'selectors, @font-face/@viewport declaration lists, ordinary rules, @media bodies nested to any depth) evaluation returns the same '
         'items in the same order with the same keywords, names, frame selectors and declaration names; only values are mapped through the '
         'value evaluator (C19_values); C19_stmt: @charset / non-LESS @import are kept verbatim at their position. Tie: printed model output '
         '= real output (as parsed trees) on all 5 keyframes spellings x 1-6 frames x 3 contexts, the declaration-block at-rules with and '
         'without a space before the brace, 7 statement forms x 3 positions, and random mixed sheets with variable and expression values.'),
   note=BASE_NOTE + ' Open known finding C19-frame-list (comma separated frame selectors are a syntax error). At-rules written inside an ordinary rule are outside the property\'s quantifier.'),
 'C05': dict(category='proof',
   technique='Lean 4: model of the mixin table, parameter binding and expansion with depth counter; theorems: definitions silent and order-free, binding laws, expansion = evaluation of the textually substituted body; differential correspondence',
   text=('17 theorems about the model of scope.add_mixin/mixins, Mixin.parse_args/call and Deferred.parse: definitions emit nothing and may '
         'stand anywhere (C05_silent, C05_def_after_use, C05_silent_and_order), compile is compositional over top-level rules so a rule used as a '
         'mixin is emitted as if it were not (C05_rule_still_emitted), positional binding / defaults / missing argument (C05_bind_*), @arguments '
         '(C05_arguments), the depth cutoff at 64 (C05_depth_limit), and the main theorem C05_inline: evaluating a body in the frame binding the '
         'parameters equals evaluating the body with the parameters textually replaced by the arguments, for bodies with declarations, nested '
         'rules and calls (incl. guarded recursion), under three decidable hypotheses (literal scope, table bodies closed over their own '
         'parameters, argument shapes) each shown necessary by a kernel-checked counterexample. Tie: model = real output on random programs '
         '(arity 0-3, defaults, , and ; separators, nested rules, &, calls in bodies, calls before definitions, rules as mixins, recursion '
         'depth up to 63 in thorough) and both = an independent textual inliner.'),
   note=BASE_NOTE + ' @media in mixin bodies is checked by C07 (oracle) and by the inline-equivalence family of this check (call vs body written in place: shadowing arguments, parameters in media queries, calls inside @media blocks of rules); which callee variables the caller sees is outside the property. Multi-token arguments containing variables and defaults referring to earlier parameters are excluded by hypothesis in C05_inline (they are exercised by the correspondence only as far as the generator produces them: not at all).'),
 'C18': dict(category='proof',
   technique='Lean 4: model of string scanning (plain and interpolated) and of interpolation, theorems by induction over the body; differential correspondence with hostile bodies',
   text=('C18_scan_plain/C18_scan_empty: for EVERY body without the delimiter and @ (braces, semicolons, comment markers, repeated spaces, '
         'combinators...) the scanner yields one text part and resumes exactly after the closing quote; C18_scan_parts: any sequence of text '
         'and @{name} parts is read back as written; C18_verbatim: evaluation copies the body between the written delimiters; C18_subst: '
         'each @{x} is replaced by the de-quoted value of x and nothing else changes; C18_compose: parts are independent (no state); '
         'C18_destring. Selector interpolation is covered by C03 (resolveSel). Tie: string token byte-exact in the real output for 38 '
         'hostile bodies + random printable-ASCII bodies x both quote kinds x 6 value positions x minified/default output, 1-3 interpolations '
         'with every variable also used plainly before and after, shadowing scenarios, selector interpolation forms.'),
   note=BASE_NOTE + ' Backslash and @ inside bodies are outside the property (the lexer has no escape handling: recorded in DESIGN).'),
 'C11': dict(category='proof',
   technique='Lean 4: code-shaped model of the formatter proved equal to a layout description (tokens + optional whitespace) by mutual induction; differential correspondence under all 72 option vectors and the CLI flags',
   text=('C11_layout: for every sheet (rules, selector lists, combinators, value lists, !important, @media/@keyframes nesting to any depth, '
         'statements) satisfying a decidable cleanliness predicate on the content of at-rule blocks, the model of Formatter.format / Block.fmt '
         '(string-level re-indentation included) / Property.fmt / Identifier.fmt equals strip(realise(fills o)(layout sheet)), for EVERY '
         'option vector; each cleanliness condition is shown necessary by a kernel-checked counterexample. C11_ws_only: every optional item '
         'renders as whitespace only; C11_erase*/C11_format_erase: two option vectors give the same token sequence and differ only in '
         'whitespace-only gaps (tokens, strings and descendant spaces are emitted verbatim); C11_min/C11_xmin: minified modes render every '
         'optional item empty (eb = newline unless xminify); C11_default*: own line per selector and declaration, indentation = level x unit; '
         'C11_plumb: the fill table. Tie: bytes of lesscpy.compile under all 72 vectors and of python -m lesscpy with the corresponding '
         'flags = Lessm.Print.format on generated CSS trees; an independent oracle checks erase-equality and line structure on the real outputs.'),
   note=BASE_NOTE + ' The space the lexer drops after a string token (CSS token sequence unchanged) is applied to the tree before it is given to the formatter model.'),
 'C12': dict(category='proof',
   technique='Lean 4: model of the token filter with theorems instantiated on the regenerated significant-whitespace set; metamorphic layout runs on the real compiler and filter-vs-filter correspondence on raw token streams',
   text=('On Lessm.Gen.significantWs regenerated from lexer.py on every run (C12_table): a run of whitespace tokens equals one (C12_run_n); a gap '
         'matters only through whether it contains any blank/line-break run (C12_gap_tokens, C12_gap_program: any non-empty whitespace run may be '
         'replaced by any other, comments and their bodies are irrelevant); after ; { } , : and at the start ANY gap is irrelevant '
         '(C12_boundary, C12_comment_at_boundary); the injected semicolon is exactly the written one, for every token stream (C12_semi, '
         'C12_semi_block, necessity: C12_semi_not_after); line numbers count the line feeds of gaps, comments and multi-line lexemes '
         '(C12_lines); the filter is idempotent. Tie: model filter = LessLexer.token on the raw token streams of all sources and variants; '
         'oracle: every program of the generators of C02 C03 C05 C07 C19 and every file of test/less (lexer-guided mutation) under k layouts '
         '(whitespace runs replaced incl. LF/CRLF/tabs, 25 hostile comment bodies at statement boundaries, last semicolons toggled) compiles to '
         'byte-identical CSS. Since the second round also on TEXT: a character-level lexer model (backtracking regex matcher + ply loop + the 45 '
         'rule functions) whose rules are regenerated from the lexer object of the source tree agrees with ply token by token (type, value, line, '
         'lexer state, in_property_decl; about 70 000 tokens per quick run over all fixtures and randomly damaged texts), and the filtered stream '
         'agrees with LessLexer.token; theorems in Props/C12Lex.lean (exact partition of the input into lexemes, no rule nullable, never stuck, '
         'line numbers monotone and bounded by the line feeds consumed, blanks only after significant tokens, injected ; only before }).'),
   note=BASE_NOTE + ' That Python re agrees with the regex model on the constructs used is exercised on the corpus, not proved; \\w on non-ASCII characters is approximated.'),
 'C01': dict(category='proof',
   technique='Lean 4: plain-sheet identity theorem on the nesting model, resting on the theorems of C02/C08/C11/C12; same-canonicaliser oracle on source and output',
   text=('C01_rules: a sheet of plain rules (any number, any selector token lists, any declaration lists) compiles in the model to exactly '
         'those rules - one output rule per source rule with declarations, in source order, with its own selector list and exactly its '
         'declarations in order (nothing dropped, duplicated, merged or reordered); C01_simple_selector/C01_no_parent: without an enclosing rule '
         'a selector is only re-encoded. The remaining parts of the statement are theorems of other properties: every token type after which a '
         'descendant or value space must survive is in the regenerated significant-whitespace set (C12_table), hex literals are normalised '
         'to the same colour (C08_fmt), tokens are printed verbatim under every option vector (C11_erase, C11_layout). Tie/oracle: all ordered '
         'pairs of 8 compound kinds x 4 combinators, all ordered pairs of 8 value kinds (incl. words drawn from the lexer\'s own element and property tables) x 3 separators, !important spellings, 9 media query '
         'shapes and random sheets under random option vectors: canonicalised source = canonicalised output (colours after normalisation); '
         'catalogue selectors through Lessm.Sel.identParse = real output. The selector printer Identifier.fmt is modelled at character level '
         '(Model/IdentFmt.lean; C01_fmt_*: only the three combinator marks are decoded, quoted pieces are printed as written, otherwise the old blank '
         'collapse) and tied in-process to the real method on random token lists.'),
   note=BASE_NOTE + ' Open known findings C01-star-joined, C01-reserved-words; spaces after a string token or a closing parenthesis are dropped by the lexer filter (same CSS token sequence) and are canonicalised away.'),
 'C10': dict(category='proof',
   technique='Lean 4: fixed-point theorem on the nesting model (embed output, compile again) for all well-formed nested sources, printer cleanliness theorems; fixed-point oracle on the real compiler over all generators and the corpus',
   text=('C10_idem: for every source satisfying the decidable predicate SourceOK (any nesting depth, any number of & per selector, selector lists, '
         'combinators) compiling the embedded output of the model again returns it unchanged; C10_fix: the same for any canonical output; '
         'C10_out_canon / C10_no_amp_tok: outputs of well-formed sources are canonical and contain no &, comma or raw combinator token; C10_type / '
         'C10_flat: the output type has no constructor for a LESS construct and no empty rule; C10_print_clean / C10_no_amp / C10_no_at: every '
         'printed character is whitespace or comes from a token of the output tree; C10_other_options: two option vectors print the same tree '
         '(C11_layout twice). Each hypothesis is shown necessary by an example. Oracle: every program of the generators of C01 C02 C03 C05 C07 C19, '
         'value programs (arithmetic, colour functions, built-ins, guards, interpolation) and the files of test/less: output free of LESS '
         'constructs, byte-identical when compiled again with the same options, equal to the source under another option vector.'),
   note=BASE_NOTE + ' Open known finding C10-media-and-space (merged media queries are a fixed point only up to one blank; both spellings are pinned by the fixtures). Corpus files that use escapes (raw text injection) are skipped.'),
 'C15': dict(category='proof',
   technique='Lean 4: CFG weight/prefix lemmas instantiated by decide +kernel on the grammar regenerated from parser.py, soundness of a validating LR driver; LR model on the regenerated tables vs the real parser on all single corruptions',
   text=('On the production list regenerated from the yacc docstrings on every run: for each delimiter family (braces, parentheses, interpolated-'
         'string and escape delimiters) an untrusted certificate written by the extractor is re-checked by decide +kernel (C15_cert_*), hence every '
         'sentence of the grammar is balanced and no prefix closes more than it opened (C15_balanced_*, derives_weight, derives_prefix); the '
         'validating LR driver accepts only sentences (C15_sound, for ANY tables), so an unbalanced token stream - block or string open at end '
         'of input, stray }, missing {, unclosed ( - is never accepted (C15_reject_*). Tie: the driver run on the regenerated LALR tables '
         'agrees with the real parser on accept/reject and on the token type and line of the first diagnostic for every generated program and '
         'every single corruption of it. Oracle: all corruption classes raise CompilationError/SyntaxError through lesscpy.compile, the diagnostic '
         'names the line that contains the token, the CLI reports them. Since the second round the verdict is also computed from TEXT (regenerated '
         'lexer rules -> modelled lexer and filter -> LALR driver on the regenerated tables) and compared with the compiler on all fixtures and '
         'randomly damaged texts; a catalogue of undefined-variable sites (values, selectors, strings, media conditions and their expressions, '
         'import paths, mixin arguments, guards) must each raise.'),
   note=BASE_NOTE + ' Rejection of non-balance corruptions (missing colon, illegal character, undefined variable) is exercised, not proved; that PLY implements LALR parsing of its tables is assumed and compared on every corrupted input.'),
 'C16': dict(category='proof',
   technique='Lean 4 theorems on a hand-written state-machine model of ldirectory (file tree, mtimes, logical clock, compiler as a parameter) + step-wise correspondence on command-line histories',
   text=('Theorems about Lessm.Batch.runDir for every tree, flag set, clock and compiler function: C16_dry (a dry run returns the output '
         'tree and clock unchanged, at any depth); C16_file with C16_force / C16_missing_or_older / C16_newer_untouched (a .less file is '
         'rewritten exactly when forced, missing or older, with exactly cc(source bytes) and a fresh time stamp, otherwise its output is '
         'untouched); C16_untouched (no other name changes); C16_iso / C16_iso_alone (the bytes do not depend on the siblings or on the '
         'listing order and equal those of the run over the file alone); C16_log (exactly the stale files are announced); C16_rec / '
         'C16_norec / C16_dir_files (-r mirrors every non-hidden sub-directory, without -r sub-directories are unchanged); C16_idem '
         '(a second run without -f rewrites and announces nothing). Tie: every run step of hand-written and random histories '
         '{create, rewrite, touch source, touch output, delete output, run with a random subset of -f -D -m -r -x -X -t -s N -I} is '
         'executed by the real command line (in-process and through python -m lesscpy) and by the model from the same pre-state; an '
         'independent oracle judges staleness (quarter-second time stamps), isolation against compiling each file alone, dry run, '
         'mirroring, and single-file mode against the library.'),
   note=BASE_NOTE + ' The compiler is a parameter of the model; os.utime/os.walk/glob are trusted; -V, -g, -L, -S, -N are not modelled.'),
 'C20': dict(category='proof',
   technique='Lean 4: the three recursion mechanisms as total functions whose only counters are the code\'s own (variable substitution rounds/nesting, import level, mixin depth) + theorems about what the counters do + differential correspondence under a wall-clock oracle',
   text=('Models without fuel of their own: Lessm.Term.process (node.py: nesting budget 128, round limit 2*vars+4), Lessm.Term.loadUnits '
         '(parser.py: import level 8, shared error register), Lessm.Mixin.evalItems (deferred.py: depth 64; its model-only gas is proved '
         'irrelevant). Theorems: C20_var_cycle (every definition set with a reachable cycle, all names defined, evaluates to the '
         'recursive-definition error for every budget; never to a value even with undefined names), C20_var_acyclic_rounds (the round limit never '
         'rejects an acyclic set: pigeonhole), C20_var_mono, C20_var_ok_closed; C20_import_cycle (a cycle reachable from the root is reported), '
         'C20_import_shallow (import trees of depth <= 9 load to exactly the textual inclusion, no depth error), C20_import_errs_only; '
         'C20_mixin_gas_enough / _gas_irrelevant / _total (the depth limit alone bounds the recursion: above an explicit bound the result does '
         'not depend on gas and is never a stack exhaustion), C20_mixin_self / _self_nested / _cycle (any length) / _trap (recursion without '
         'base case is the NameError compilation error), C20_mixin_countdown (for every n <= 64 the guarded count-down expands to exactly n '
         'declarations, for every n >= 65 it is the error). Tie: random variable graphs, import graphs on disk, recursion families and '
         'random recursive mixin programs run through model and compiler; every compilation must end within 15 s + 0.5 s/KB of output as a '
         'result or a CompilationError.'),
   note=BASE_NOTE + ' The cost of one step in CPython and of PLY parsing is measured by the wall-clock oracle, not proved.'),
 'C14': dict(category='proof',
   technique='Lean 4 theorems on a hand-written model of p_statement_import (path resolution, LESS / non-LESS decision, recursive parser, splice, error register) + differential correspondence on random file trees',
   text=('Theorems about Lessm.Imp.load for every file tree: C14_inline / C14_inline_root (within the level limit the unit list of the root equals '
         'the text with every imported file pasted in place of its statement, transitively, and the register holds exactly the missing files), '
         'C14_post / C14_post_flat (hence, for EVERY continuation `post` of the compiler, the result of the split tree is `post` of the pasted '
         'text: rules at that position, variables and mixins visible to the importer), C14_stmt / C14_stmt_any (a non-LESS import stays, as '
         'written, at its position), C14_missing / C14_missing_root / C14_errs (a missing .less file is registered, errors of imported files are '
         'never dropped), C14_path_* (extension optional, relative to the importing file, `..` steps, the LESS / non-LESS decision on all '
         'names), C14_twice. Tie: random programs cut into random trees of files and sub-directories (5 ways of writing the import, repeated '
         'imports, imports inside rules and @media, non-LESS forms, missing and unparsable files): the model\'s unit list compiled by the real '
         'compiler, the real compiler on the tree, and an independent Python inliner must agree byte for byte.'),
   note=BASE_NOTE + ' Everything after the unit list is the parameter `post`; os.path is trusted to agree with the model\'s path functions on the generated names (exercised).'),
 'C13': dict(category='proof',
   technique='Lean 4 non-interference theorems on a model of what compilations share (package table module, table file in the temporary directory) for any interleaving and crash points + footprint check by strace + histories / hash seeds / threads / concurrent processes against fresh-process references',
   text=('Theorems about Lessm.Pure (any number of processes, any schedule of construct / truncate / write / compile / crash steps, any initial '
         'content of <tmp>/yacctab.py): C13_pure (every output is run(gen, source, options)), C13_cache (cold, warm, truncated, foreign file: same '
         'outputs), C13_history (the n-th call of a history returns what it returns alone), under PkgOK (no importable package table module, or '
         'one with this grammar\'s tables; C13_foreign_pkg_counterexample shows the hypothesis is needed). PARTIAL: that the code shares nothing '
         'but these two things is not proved but checked on every run: strace of a real history (the table file is only ever opened '
         'O_WRONLY|O_TRUNC, once per construction, nothing under the temporary directory is read), lesscpy.lessc.yacctab not importable, and every '
         'call of random histories of valid and failing programs (stream / file, 4 hash seeds, 2-8 threads, 6-16 concurrent processes on one '
         'temporary directory with the table file absent / warm / cut at many prefixes / foreign / garbage / a directory, some writers killed) '
         'compared byte for byte with the same call alone in a fresh interpreter.'),
   note=BASE_NOTE + ' Scheduling of real processes is sampled, not enumerated; the OS file semantics are trusted to be covered by the model\'s step interleavings.'),
}
NOT_APPLICABLE = {}
