#!/usr/bin/env python3
"""Regenerates the tables of DESIGN.md section 13 (between the BEGIN/END markers) from known_findings.json and seeded/*/meta.json."""
import json
import os
import re
import subprocess

VERIF = os.path.dirname(os.path.dirname(os.path.abspath(__file__)))
kf = json.load(open(os.path.join(VERIF, 'known_findings.json')))['findings']


def esc(s):
    return str(s).replace('|', '\\|').replace('\n', ' ')


fixed = [f for f in kf if f['status'] == 'fixed']
openf = [f for f in kf if f['status'] == 'open']
order = subprocess.run(['git', '-C', os.environ.get('VERIF_REPO', '/repo'), 'log', '--reverse', '--format=%h %s'], capture_output=True, text=True).stdout.split('\n')
pos = {l.split()[0]: i for i, l in enumerate(order) if l}
fixed.sort(key=lambda f: pos.get(f.get('commit', '')[:7], 999))
t1 = ['| # | property | commit | what failed on the pinned tree | replay input |', '|---|---|---|---|---|']
for i, f in enumerate(fixed, 1):
    t1.append('| %d | %s | `%s` | %s | `%s` |' % (i, f['property'], f.get('commit'), esc(f['what'])[:330], esc(f.get('input', ''))[:110]))
t2 = ['| id | property | what fails | why recorded, not repaired |', '|---|---|---|---|']
for f in openf:
    t2.append('| %s | %s | %s | %s |' % (f['id'], f['property'], esc(f['what'])[:300], esc(f.get('why_not_fixed', ''))[:300]))
t3 = ['| seeded change | what was changed (sub-agent\'s summary) | caught by | what fired |', '|---|---|---|---|']
sd = os.path.join(VERIF, 'seeded')
for sid in sorted(os.listdir(sd)):
    mp = os.path.join(sd, sid, 'meta.json')
    if not os.path.exists(mp):
        continue
    m = json.load(open(mp))
    db = m.get('detected_by') or {}
    caught = db.get('caught_by')
    if m.get('neutralised'):
        t3.append('| %s | %s | neutralised | %s |' % (sid, esc(m.get('summary', ''))[:260], esc(m['neutralised'])[:200]))
        continue
    what = ''
    if caught:
        w = (db['checks_run'][caught[0]].get('what') or {})
        what = w.get('problem') or w.get('kind') or ''
        if w.get('source'):
            what += ' — `%s`' % esc(w['source'])[:80]
        if w.get('input'):
            what += ' — `%s`' % esc(w['input'])[:80]
    elif db.get('check'):
        caught = [db['check'].split()[1]]
        what = db.get('how', '').split('VIOLATION lines')[-1][:160]
    t3.append('| %s | %s | %s | %s |' % (sid, esc(m.get('summary', ''))[:260], ', '.join(caught) if caught else '**not caught**', esc(what)[:200]))
p = os.path.join(VERIF, 'DESIGN.md')
s = open(p).read()
for name, tab in (('FIXED', t1), ('OPEN', t2), ('SEEDED', t3)):
    rep = '<!-- BEGIN %s -->\n%s\n<!-- END %s -->' % (name, '\n'.join(tab), name)
    s = re.sub(r'<!-- BEGIN %s -->.*?<!-- END %s -->' % (name, name), lambda _m: rep, s, flags=re.S)
open(p, 'w').write(s)
print('tables:', len(t1) - 2, 'fixed,', len(t2) - 2, 'open,', len(t3) - 2, 'seeded')
