#!/usr/bin/env python3
"""Regenerate MANIFEST.json from tools/manifest_data.py (single source for the per-check texts)."""
import json, os, sys
sys.path.insert(0, os.path.dirname(os.path.abspath(__file__)))
from manifest_data import CHECKS, NOT_APPLICABLE, NOTES
V = os.path.dirname(os.path.dirname(os.path.abspath(__file__)))
checks = []
for pid, d in sorted(CHECKS.items()):
    checks.append({
        'property_id': pid,
        'quick_cmd': './check %s --tier quick' % pid,
        'thorough_cmd': './check %s --tier thorough' % pid,
        'evidence_file': 'evidence/%s.json' % pid,
        'replay_cmd_template': './check %s --replay {path}' % pid,
        'engine': 'lean4-model+correspondence',
        'level_claimed': {'category': d['category'], 'text': d['text'], 'design_ref': d.get('design_ref', 'DESIGN.md §7 ' + pid)},
        'level_note': d['note'],
        'technique': d['technique'],
    })
m = {
    'version': 1,
    'setup_cmd': 'cd lean && (lake build Lessm driver || (/venv/bin/python ../harness/extract.py && lake build Lessm driver))',
    'hooks': {'guard': 'LESSCPY_VERIF', 'enable': 'no hooks are needed: the checks observe lesscpy through lesscpy.compile, python -m lesscpy, the lexer and parser objects (translator, front-end correspondence) and, in-process and unmodified, the functions utility.fold_signs, utility.split_unit and Identifier.fmt (correspondence of their models); the guard variable is set by the harness and read by nothing',
              'baseline_off_cmd': 'cd /repo && /venv/bin/python -m pytest -ra -q -p no:cacheprovider --timeout=900 --continue-on-collection-errors',
              'source_commits': [], 'add_only': True},
    'engines': [{'name': 'lean4-model+correspondence', 'path': 'lean/ harness/', 'serves_properties': sorted(CHECKS),
                 'kind_free_text': 'Lean 4 model + kernel-checked theorems (lake build, #print axioms audit); model regenerated in part from the source (harness/extract.py) and tied by a differential correspondence run of the model driver against lesscpy'}],
    'checks': checks,
    'notes': NOTES,
    'not_applicable': [{'property_id': k, 'reason': v} for k, v in sorted(NOT_APPLICABLE.items())],
}
json.dump(m, open(os.path.join(V, 'MANIFEST.json'), 'w'), indent=1)
print('MANIFEST.json: %d checks, %d not_applicable' % (len(checks), len(m['not_applicable'])))
