#!/usr/bin/env python3
"""
tools/run_seeded.py [ids...] : apply every seeded change to /repo's working tree (git apply), run the quick check of its
property (and, with --all-checks, every check), record what fired in seeded/<id>/meta.json under "detected_by", undo
(git checkout -- .).  Never commits anything to /repo.  Refuses to start when /repo's working tree is not clean.
"""
import json
import os
import subprocess
import sys

VERIF = os.path.dirname(os.path.dirname(os.path.abspath(__file__)))
REPO = os.environ.get('VERIF_REPO', '/repo')


def sh(cmd, **kw):
    return subprocess.run(cmd, capture_output=True, text=True, **kw)


def main():
    args = [a for a in sys.argv[1:] if not a.startswith('--')]
    all_checks = '--all-checks' in sys.argv
    if sh(['git', '-C', REPO, 'status', '--porcelain']).stdout.strip():
        print('working tree of', REPO, 'is not clean')
        return 2
    ids = args or sorted(os.listdir(os.path.join(VERIF, 'seeded')))
    props = sorted(set(json.loads(l)['id'] for l in open(os.path.join(VERIF, 'properties.jsonl'))))
    summary = []
    for sid in ids:
        d = os.path.join(VERIF, 'seeded', sid)
        patch = os.path.join(d, 'patch.diff')
        if not os.path.exists(patch):
            continue
        meta = json.load(open(os.path.join(d, 'meta.json')))
        if meta.get('neutralised'):
            summary.append((sid, 'neutralised (not run)'))
            continue
        prop = sid.split('-')[0]
        r = sh(['git', '-C', REPO, 'apply', patch])
        if r.returncode != 0:
            meta['detected_by'] = {'error': 'patch does not apply to the current tree: ' + r.stderr[:200]}
            json.dump(meta, open(os.path.join(d, 'meta.json'), 'w'), indent=1)
            summary.append((sid, 'PATCH DOES NOT APPLY'))
            print(summary[-1], flush=True)
            continue
        try:
            fired = {}
            for c in (props if all_checks else [prop] + meta.get('also_run', [])):
                rr = sh([os.path.join(VERIF, 'check'), c, '--tier', 'quick'], cwd=VERIF)
                lines = [l for l in rr.stdout.split('\n') if l.startswith('VIOLATION')]
                fired[c] = {'exit': rr.returncode, 'first_violation_line': lines[0] if lines else None, 'violation_lines': len(lines)}
                if lines:
                    rp = lines[0].split('replay=')[1].split()[0]
                    try:
                        rep = json.load(open(os.path.join(VERIF, rp)))
                        fired[c]['what'] = {k: (str(v)[:300]) for k, v in rep.items() if k in ('kind', 'problem', 'source', 'input', 'broken', 'label', 'setting')}
                    except Exception:
                        pass
        finally:
            sh(['git', '-C', REPO, 'checkout', '--', '.'])
        caught = [c for c, f in fired.items() if f['exit'] == 1 and f['violation_lines']]
        meta['detected_by'] = {'how': 'tools/run_seeded.py: git -C /repo apply seeded/%s/patch.diff; ./check <id> --tier quick; git -C /repo checkout -- .' % sid,
                               'checks_run': fired, 'caught_by': caught}
        json.dump(meta, open(os.path.join(d, 'meta.json'), 'w'), indent=1)
        summary.append((sid, 'caught by ' + ','.join(caught) if caught else 'NOT CAUGHT'))
        print(summary[-1], flush=True)
    sp = os.path.join(VERIF, 'seeded', 'SUMMARY.json')
    allsum = json.load(open(sp)) if os.path.exists(sp) else {}
    allsum.update(dict(summary))
    json.dump(dict(sorted(allsum.items())), open(sp, 'w'), indent=1)
    return 0


if __name__ == '__main__':
    sys.exit(main())
